#!/usr/bin/env python3
# render_matrix.py: writes seeded/MATRIX.txt from the meta.json files (no checks are run).
# X = detected in the last run that tried this pair, x = detected in some runs only, . = missed when tried, blank = never tried.
import json,glob
ids=['C%02d'%i for i in range(1,17)]
rows=[]
for d in sorted(glob.glob('/verif/seeded/*/meta.json')):
    m=json.load(open(d))
    rows.append((m['id'],m['breaks_property'],set(m.get('detected_by',[])),set(m.get('detected_in_some_runs_by',[])),set(m.get('missed_by',[])),m.get('note','')))
with open('/verif/seeded/MATRIX.txt','w') as f:
    f.write('# X detected, x detected in some runs only, . missed, blank not tried; pairs other than the target and its neighbours are only tried in rounds 1-2\n')
    f.write('seed      target  '+' '.join(i[1:] for i in ids)+'\n')
    for n,t,det,some,miss,note in rows:
        cells=[]
        for i in ids:
            cells.append(' X' if i in det else (' x' if i in some else (' .' if i in miss else '  ')))
        f.write('%-9s %-6s  '%(n,t)+' '.join(cells)+('   # '+note[:90] if note else '')+'\n')
    nd=sum(1 for r in rows if r[2])
    f.write('# %d seeds, %d detected by at least one check\n'%(len(rows),nd))
print(open('/verif/seeded/MATRIX.txt').read()[-400:])
