#!/bin/bash
# confirm_seed.sh <agent-worktree> <A|B> <property-id> <name>
# Confirms a sub-agent's seeded change independently in a fresh scratch worktree:
# the patch applies to /repo HEAD, the tree builds, the repository's suite passes,
# the demonstration fails with the patch and passes without it. On success the
# change is stored as /verif/seeded/<name>/ (patch.diff, demo, meta.json).
set -u
export GOFLAGS=-mod=mod GOPROXY=off GOSUMDB=off GOTOOLCHAIN=local
WT="$1"; X="$2"; PID="$3"; NAME="$4"
SD="$WT/SEEDED"
PATCH="$SD/patch$X.diff"
[ -f "$PATCH" ] || { echo "NO-PATCH $NAME"; exit 2; }
SCR=/tmp/scratch/confirm-$NAME-$$
mkdir -p /tmp/scratch
git -C /repo worktree add -q --detach "$SCR" HEAD || exit 2
cleanup() { git -C /repo worktree remove --force "$SCR" 2>/dev/null; rm -rf "$SCR"; }
trap cleanup EXIT
cd "$SCR"
# locate the demo
DEMO=""; DEMODIR=""
for f in "$SD/demo${X}_test.go" "$SD/demo$X"*_test.go; do [ -f "$f" ] && DEMO="$f" && break; done
run_demo() { # returns 0 if the demo passes
  if [ -n "$DEMO" ]; then
    # target package from "package" clause and a hint comment
    pkg=$(grep -m1 '^package ' "$DEMO" | awk '{print $2}')
    case "$pkg" in
      pql|pql_test) d=. ;;
      parser|parser_test) d=parser ;;
      main) d=cmd/pql ;;
      *) d=. ;;
    esac
    hint=$(grep -m3 -oE '(cmd/pql|parser)/?' "$DEMO" | head -1)
    cp "$DEMO" "$d/zz_demo_test.go"
    tags=$(grep -m1 '^//go:build ' "$DEMO" | sed 's|^//go:build ||')
    # external test packages (pql_test) live next to the package they test
    case "$pkg" in pql_test) d=. ;; parser_test) d=parser ;; main_test) d=cmd/pql ;; esac
    if grep -q 'cmd/pql' "$DEMO" && [ "$pkg" = main ]; then d=cmd/pql; fi
    [ -f "$d/zz_demo_test.go" ] || cp "$DEMO" "$d/zz_demo_test.go"
    timeout -s KILL 600 go test -count=1 -race ${tags:+-tags "$tags"} -run . "./$d" >"$SCR/demo.out" 2>&1; rc=$?
    if grep -q 'no tests to run' "$SCR/demo.out"; then rc=98; fi
    rm -f "$d/zz_demo_test.go"
    return $rc
  elif [ -d "$SD/demo$X" ]; then
    rm -rf "$SCR/SEEDED"; mkdir -p "$SCR/SEEDED"; cp -r "$SD/demo$X" "$SCR/SEEDED/demo$X"
    (cd "$SCR" && timeout -s KILL 900 go run -race ./SEEDED/demo$X >"$SCR/demo.out" 2>&1); rc=$?
    rm -rf "$SCR/SEEDED"
    return $rc
  fi
  echo "no demo found" >"$SCR/demo.out"; return 99
}
run_demo; base=$?
if [ $base -ne 0 ]; then echo "DEMO-FAILS-ON-CLEAN-TREE $NAME (rc=$base)"; tail -15 "$SCR/demo.out"; exit 3; fi
git apply "$PATCH" || { echo "PATCH-DOES-NOT-APPLY $NAME"; exit 4; }
go build ./... || { echo "BUILD-FAILS $NAME"; exit 5; }
if ! timeout -s KILL 900 go test -count=1 ./... >"$SCR/suite.out" 2>&1; then echo "SUITE-FAILS $NAME"; tail -15 "$SCR/suite.out"; exit 6; fi
run_demo; with=$?
if [ $with -eq 0 ]; then echo "DEMO-PASSES-WITH-PATCH $NAME"; exit 7; fi
OUT=/verif/seeded/$NAME
mkdir -p "$OUT"
cp "$PATCH" "$OUT/patch.diff"
if [ -n "$DEMO" ]; then cp "$DEMO" "$OUT/$(basename "$DEMO")"; else cp -r "$SD/demo$X" "$OUT/demo"; fi
[ -f "$SD/meta$X.txt" ] && cp "$SD/meta$X.txt" "$OUT/meta.txt"
python3 - "$OUT" "$PID" "$NAME" <<'PY'
import json,sys,os
out,pid,name=sys.argv[1:4]
meta=open(os.path.join(out,'meta.txt')).read() if os.path.exists(os.path.join(out,'meta.txt')) else ''
json.dump({"id":name,"breaks_property":pid,"description_by_author":meta,
 "confirmed":{"patch_applies_to_repo_HEAD":True,"builds":True,"repository_suite_passes_with_patch":True,"demo_passes_without_patch":True,"demo_fails_with_patch":True,
  "how":"tools/confirm_seed.sh in a fresh scratch worktree of /repo (go test -count=1 ./...; demo run with -race)"},
 "detected_by":[]}, open(os.path.join(out,'meta.json'),'w'), indent=1)
PY
echo "CONFIRMED $NAME"
