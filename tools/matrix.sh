#!/bin/bash
# matrix.sh: every seeded change against every quick check; results into seeded/*/meta.json and /verif/seeded/MATRIX.txt
cd /verif
: > /tmp/matrix.log
for d in seeded/${MATRIX_GLOB:-*}/; do
  n=$(basename $d)
  tools/try_seed.sh $n C01 C02 C03 C04 C05 C06 C07 C08 C09 C10 C11 C12 C13 C14 C15 C16 >> /tmp/matrix.log 2>&1
done
python3 - <<'PY'
import json,glob,os
ids=['C%02d'%i for i in range(1,17)]
rows=[]
for d in sorted(glob.glob('/verif/seeded/*/meta.json')):
    m=json.load(open(d))
    rows.append((m['id'],m['breaks_property'],set(m.get('detected_by',[]))))
with open('/verif/seeded/MATRIX.txt','w') as f:
    f.write('seed     target  '+' '.join(i[1:] for i in ids)+'\n')
    for n,t,det in rows:
        f.write('%-8s %-6s  '%(n,t)+' '.join((' X' if i in det else ' .') for i in ids)+'\n')
print(open('/verif/seeded/MATRIX.txt').read())
PY
