#!/usr/bin/env python3
"""Regenerates /verif/MANIFEST.json from the table below (kept in one place so
that the manifest is always schema-valid and in step with the checks)."""
import json, os, subprocess

ROOT = os.path.dirname(os.path.dirname(os.path.abspath(__file__)))
props = [json.loads(l) for l in open(os.path.join(ROOT, "properties.jsonl"))]

BASELINE_OFF = ("cd /repo && GOFLAGS=-mod=mod GOPROXY=off GOSUMDB=off GOTOOLCHAIN=local "
                "go test -json -vet=off -count=1 -timeout 25m ./...")

# id -> (technique, level text, level note, design ref)
CLAIMED = {}
def claim(pid, technique, text, note, ref):
    CLAIMED[pid] = dict(technique=technique, text=text, note=note, ref=ref)

exec(open(os.path.join(ROOT, "tools", "claims.py")).read())

hook_commits = []
try:
    out = subprocess.run(["git", "-C", "/repo", "log", "--format=%H %s"], capture_output=True, text=True).stdout
    for l in out.splitlines():
        h, s = l.split(" ", 1)
        if s.startswith("verif:"):
            hook_commits.append(h)
except Exception:
    pass

checks, na = [], []
for p in props:
    pid = p["id"]
    if pid in CLAIMED:
        c = CLAIMED[pid]
        checks.append({
            "property_id": pid,
            "quick_cmd": "./check %s quick" % pid,
            "thorough_cmd": "./check %s thorough" % pid,
            "evidence_file": "/verif/evidence/%s.json" % pid,
            "replay_cmd_template": "./check %s --replay {path}" % pid,
            "engine": "vmon",
            "level_claimed": {"category": "exploration", "text": c["text"], "design_ref": c["ref"]},
            "level_note": c["note"],
            "technique": c["technique"],
        })
    else:
        na.append({"property_id": pid, "reason": NOT_CLAIMED.get(pid, "check not built yet in this session; see DESIGN.md for the planned monitor")})

manifest = {
    "version": 1,
    "setup_cmd": "./setup.sh",
    "hooks": {
        "guard": "verif",
        "enable": "go build -tags verif (the harness module replaces github.com/runreveal/pql by /repo, so every ./check rebuilds the working tree with the tag on; C14 additionally uses -race)",
        "baseline_off_cmd": BASELINE_OFF,
        "source_commits": hook_commits,
        "add_only": True,
    },
    "engines": [{
        "name": "vmon",
        "path": "/verif/harness",
        "serves_properties": sorted(CLAIMED),
        "kind_free_text": "runtime monitoring: the real Scan/Parse/Walk/Compile/cmd-pql are executed in worker processes on enumerated, seeded and mutated inputs under build-tagged step/site hooks (and the Go race detector for C14); independent reference models and invariant oracles observe every execution",
    }],
    "checks": checks,
    "notes": "All checks are runtime monitors over real executions (exit 0 held on what was observed, 1 with a VIOLATION line, 2 CHECK-ERROR for a broken check). VERIF_SEED seeds every generator; known findings are listed in /verif/known-findings.txt.",
    "not_applicable": na,
}
json.dump(manifest, open(os.path.join(ROOT, "MANIFEST.json"), "w"), indent=1)
print("claimed:", sorted(CLAIMED), "not claimed:", [x["property_id"] for x in na])
