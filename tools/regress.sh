#!/bin/bash
# regress.sh [k n]: re-runs, for every confirmed seeded change (the k-th of every n), the checks recorded
# as detecting it (only those also listed in REGRESS_IDS, when set), and prints a line for each check that no longer does (REGRESSION) or patch that no longer applies.
k=${1:-0}; n=${2:-1}; i=0
for d in /verif/seeded/*/; do
  name=$(basename $d); [ -f $d/meta.json ] || continue
  i=$((i+1)); [ $((i % n)) -eq $k ] || continue
  [ -n "${REGRESS_SKIP:-}" ] && grep -qx "$name" "$REGRESS_SKIP" && continue
  # every scratch copy has a path of its own, so the Go build cache only grows (it filled the disk once): empty it when the disk gets short (a build running in another stream at that moment may fail once: re-run such a SUITE-FAILS line)
  if [ "$(df --output=avail -BG / | tail -1 | tr -dc 0-9)" -lt 25 ]; then GOFLAGS=-mod=mod go clean -cache 2>/dev/null; fi
  ids=$(python3 -c "import json,sys; m=json.load(open('$d/meta.json')); only='$REGRESS_IDS'.split(); print(' '.join(x for x in m.get('detected_by',[]) if not only or x in only))")
  [ -n "$ids" ] || { [ -n "$REGRESS_IDS" ] || echo "NEVER-DETECTED $name"; continue; }
  res=$(/verif/selftest $d/patch.diff $ids 2>&1)
  echo "$res" | grep -E "^(MISSED|SUITE-FAILS|PATCH-FAILS)" | sed "s/^/REGRESSION $name: /" | cut -c1-200
  echo "$res" | grep -qE "^DETECTED" && echo "ok $name: $(echo "$res" | grep -cE '^DETECTED') of $(echo $ids | wc -w)"
done
