#!/bin/bash
# process_seed.sh <root> <nn> <suffix> <letters> <ID...>: confirm the seeds of sub-agent worktree <root>/c<nn> and run checks against them
root="$1"; nn="$2"; suf="$3"; letters="$4"; shift 4
for x in $letters; do
  n=c$nn-$suf$(echo $x | tr A-Z a-z)
  out=$(/verif/tools/confirm_seed.sh $root/c$nn $x C$nn $n 2>&1 | tail -6)
  echo "$out" | tail -1
  if echo "$out" | grep -q "^CONFIRMED"; then /verif/tools/try_seed.sh $n "$@" 2>&1 | grep -E "DETECTED|MISSED|SUITE|PATCH|CHECK-STATUS" | cut -c1-240; else echo "$out"; fi
done
