#!/bin/bash
# process_seed.sh <nn> <ID...>: confirm both seeds of sub-agent worktree /tmp/wt/c<nn> and run checks against them
nn="$1"; shift
for x in A B; do
  n=c$nn-$(echo $x | tr A-Z a-z)
  out=$(/verif/tools/confirm_seed.sh /tmp/wt/c$nn $x C$nn $n 2>&1 | tail -4)
  echo "$out" | tail -1
  if echo "$out" | grep -q "^CONFIRMED"; then /verif/tools/try_seed.sh $n "$@" 2>&1 | grep -E "DETECTED|MISSED|SUITE|PATCH|CHECK-STATUS" | cut -c1-220; else echo "$out"; fi
done
