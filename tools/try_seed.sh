#!/bin/bash
# try_seed.sh <seed-name> <ID> [<ID>…]: runs the quick checks against a confirmed seeded change
# (applied to a scratch copy, never to /repo) and records which checks detect it in meta.json.
set -u
NAME="$1"; shift
D=/verif/seeded/$NAME
[ -f "$D/patch.diff" ] || { echo "no such seed $NAME"; exit 2; }
res=$(/verif/selftest "$D/patch.diff" "$@" 2>&1)
echo "$res"
python3 - "$D" "$res" <<'PY'
import json,sys,re
d,res=sys.argv[1:3]
m=json.load(open(d+'/meta.json'))
det=set(m.get('detected_by',[])); miss=set(m.get('missed_by',[]))
for l in res.splitlines():
    mm=re.match(r'(DETECTED|MISSED) \S+ by (C\d+)',l)
    if mm:
        (det if mm.group(1)=='DETECTED' else miss).add(mm.group(2))
        if mm.group(1)=='DETECTED':
            miss.discard(mm.group(2))
            m.setdefault('witness',{})[mm.group(2)]=l.split(':',1)[1].strip()[:300] if ':' in l else ''
m['detected_by']=sorted(det); m['missed_by']=sorted(miss - det)
json.dump(m,open(d+'/meta.json','w'),indent=1)
PY
