#!/usr/bin/env python3
"""mkprompts.py <root> <emphasis-file>: writes <root>/prompt_cNN.txt for the sixteen properties
(the brief given to a seeding sub-agent: one property, its own scratch worktree <root>/cNN, nothing from /verif)
and prints the shell commands that create the worktrees. The emphasis file holds the round's THIS ROUND paragraph."""
import json, sys, os

root, emph = sys.argv[1], open(sys.argv[2]).read().strip()
os.makedirs(root, exist_ok=True)
props = [json.loads(l) for l in open('/verif/properties.jsonl')]
for p in props:
    n = p['id'][1:]
    wt = f"{root}/c{n}"
    prop = f"{p['id']} — {p['title']}\n\n{p['statement']}\n\nQuantified over: {p['quantifier']['text']}"
    text = f"""You are working in a scratch git worktree of the Go project github.com/runreveal/pql located at {wt} — a compiler from a Kusto-like pipelined query language (PQL) to ClickHouse-flavoured SQL: lexer parser/lex.go, parser parser/parser.go, AST + Walk parser/ast.go, compiler pql.go, command-line tool cmd/pql/main.go. Work ONLY inside {wt}. Do not read or write /repo or /verif or anything outside {wt} (other than the Go toolchain).

Here is a semantic property that the code at HEAD currently satisfies:

-----
{prop}
-----

TASK. Produce THREE different, independent changes (A, B and C) to the project's non-test source code. Each change must BREAK this property while
 (a) the project still compiles (`go build ./...`),
 (b) the existing test suite still passes unchanged (`go test -count=1 ./...`), and
 (c) the breakage needs something SPECIFIC to manifest — a particular unusual input, a multi-step sequence of operators/statements, a particular interleaving of goroutines, a fault at a particular point, or two cooperating sites that each look fine alone. It must NOT be something ordinary use would expose at once.
Prefer realistic regressions: a refactoring slip, a well-meant "optimisation" or "simplification", an off-by-one, a dropped or weakened condition, a wrong default in a rarely used branch, a cache, a fast path. A, B and C must touch different mechanisms and different functions. Make them HARD TO FIND for an automated checker that generates random and exhaustive-small programs and compares the real behaviour with a reference model: the minimal triggering input should combine at least three distinct language features, or need a specific size/count/threshold, or need state carried across several calls/statements/files, or a specific pairing of two rarely used options. Do not modify any *_test.go file or testdata, and do not touch verif_on.go / verif_off.go or the `verifSite(...)`, `verifSplit...`, `verifPause(...)` instrumentation lines (leave them where they are).

{emph}

DELIVERABLES, all inside {wt}/SEEDED/ (the directory exists; PROPERTY.txt there repeats the property):
 - patchA.diff, patchB.diff, patchC.diff : the output of `git diff` for that change alone against HEAD (must apply cleanly with `git apply` on a clean HEAD);
 - demoA/main.go, demoB/main.go, demoC/main.go : each a small `package main` program (run in place from {wt} with `go run ./SEEDED/demoA`) that exits non-zero and prints FAIL with the change applied and exits 0 printing PASS without it (do NOT put *_test.go files into SEEDED/, they break `go test ./...`; a demo for the command-line tool may build and run ./cmd/pql itself into a temporary directory that it removes);
 - metaA.txt, metaB.txt, metaC.txt : 5-10 lines each: what the change is; which part of the property it breaks; exactly what is needed for it to manifest (the specific input / sequence / schedule); the commands you ran and what they showed (suite passes with the patch; demo fails with the patch and passes without).
When you are done the worktree must be clean again (HEAD unmodified, no stray files outside SEEDED/): use `git diff > file` then `git checkout -- .` (do NOT use `git stash`: the stash is shared with other worktrees) and delete temporary demo copies.

ENVIRONMENT. No network. Before any go command run: export GOFLAGS=-mod=mod GOPROXY=off GOSUMDB=off GOTOOLCHAIN=local
`go test -race` works here. IMPORTANT: a changed compiler may loop forever and the command-line tool traps SIGTERM, so wrap every command that executes project code in `timeout -s KILL 120 <command>`.
Verify all of (a), (b), (c) and both directions of each demonstration yourself before you finish. Finish with a short summary of A, B and C.
"""
    open(f"{root}/prompt_c{n}.txt", 'w').write(text)
    open(f"{root}/PROPERTY_c{n}.txt", 'w').write(prop + "\n")
    print(f"git -C /repo worktree add --detach {wt} HEAD -q && mkdir -p {wt}/SEEDED && cp {root}/PROPERTY_c{n}.txt {wt}/SEEDED/PROPERTY.txt")
