# Table of claimed checks, exec'd by mkmanifest.py.
NOT_CLAIMED = {}

claim("C09", "reference-model monitor: real Scan vs independent longest-match tokenizer + partition/re-scan/accessor invariants on exhaustive short strings and seeded byte soups",
      "Every input of a complete enumeration of short strings over two 16-symbol alphabets (all scanner states), of seeded byte strings, token soups and corpus prefixes is scanned by the real lexer in a monitored worker; an independently written tokenizer and four boundary invariants decide each execution. Held = no difference on the executions listed in the evidence; it is not a proof for longer inputs.",
      "Trusts the reference tokenizer (pqlref/tokens.go, written from the property text), math/big, and the Go runtime; error-token messages are not compared.",
      "DESIGN.md section 5, C09")

claim("C15", "invariant monitor at the API boundary: SplitStatements vs Scan vs Parse vs Compile on exhaustive short strings and semicolon insertion at every byte offset",
      "Every input is split, scanned, parsed and compiled by the real code in monitored workers; join/count/no-semicolon/sub-list invariants and statement-by-statement agreement between whole-source and per-piece results decide each execution. Exhaustive over all strings of <=5/6 symbols of a 15-symbol separator/quote/comment alphabet, plus ';' inserted at every offset of a corpus of programs.",
      "Trusts only the comparison code and the reflection dumper (pqlref/dump.go); no reference model is needed because the property relates the implementation's own entry points to each other.",
      "DESIGN.md section 5, C15")

claim("C12", "totality monitor: panic capture, build-tagged step-counting hooks (logical non-progress bound), per-case CPU/heap watchdog in sacrificial worker processes over pathological, random and site-guided mutated inputs",
      "Every input is pushed through Scan, SplitStatements, Parse, Walk and Compile (with and without parameters) in worker processes; a panic, more than 2e9 instrumented loop steps in one call, a CPU overrun that repeats in a solo re-run, a heap blow-up or the death of the worker refutes the property with that input as witness. 'Never hangs' is decided as bounded progress, not as an unbounded eventuality.",
      "Bounds are restatements chosen >=50x above the largest legitimate measurements (reported in the evidence); loops without a hook are only covered by the CPU watchdog. Known finding let-amplification is listed in known-findings.txt.",
      "DESIGN.md section 5, C12")
