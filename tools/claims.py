# Table of claimed checks, exec'd by mkmanifest.py.
NOT_CLAIMED = {}

claim("C09", "reference-model monitor: real Scan vs independent longest-match tokenizer + partition/re-scan/accessor invariants on exhaustive short strings and seeded byte soups",
      "Every input of a complete enumeration of short strings over two 16-symbol alphabets (all scanner states), of seeded byte strings, token soups and corpus prefixes is scanned by the real lexer in a monitored worker; an independently written tokenizer and four boundary invariants decide each execution. Held = no difference on the executions listed in the evidence; it is not a proof for longer inputs.",
      "Trusts the reference tokenizer (pqlref/tokens.go, written from the property text), math/big, and the Go runtime; error-token messages are not compared.",
      "DESIGN.md section 5, C09")

claim("C15", "invariant monitor at the API boundary: SplitStatements vs Scan vs Parse vs Compile on exhaustive short strings and semicolon insertion at every byte offset",
      "Every input is split, scanned, parsed and compiled by the real code in monitored workers; join/count/no-semicolon/sub-list invariants and statement-by-statement agreement between whole-source and per-piece results decide each execution. Exhaustive over all strings of <=5/6 symbols of a 15-symbol separator/quote/comment alphabet, plus ';' inserted at every offset of a corpus of programs.",
      "Trusts only the comparison code and the reflection dumper (pqlref/dump.go); no reference model is needed because the property relates the implementation's own entry points to each other.",
      "DESIGN.md section 5, C15")

claim("C12", "totality monitor: panic capture, build-tagged step-counting hooks (logical non-progress bound), per-case CPU/heap watchdog in sacrificial worker processes over pathological, random and site-guided mutated inputs",
      "Every input is pushed through Scan, SplitStatements, Parse, Walk and Compile (with and without parameters) in worker processes; a panic, more than 2e9 instrumented loop steps in one call, a CPU overrun that repeats in a solo re-run, a heap blow-up or the death of the worker refutes the property with that input as witness. 'Never hangs' is decided as bounded progress, not as an unbounded eventuality.",
      "Bounds are restatements chosen >=50x above the largest legitimate measurements (reported in the evidence); loops without a hook are only covered by the CPU watchdog. Known finding let-amplification is listed in known-findings.txt.",
      "DESIGN.md section 5, C12")

claim("C07", "reference-model monitor: real Parse vs shunting-yard reference on exhaustive operator sequences and vs the layout printer's expected tree on seeded full programs in three layouts",
      "The real parser is run on every operator sequence of length <=3/4 over all sixteen binary operators with six operand shapes and on seeded programs covering every operator and optional part, printed in several layouts; an independent grammar model (a different algorithm: shunting-yard; and the printer that knows what it printed) says which tree must come back. Held = no structural difference on the executions listed in the evidence.",
      "Trusts pqlref (tree model, printer, shunting-yard, Diff) written from the property text and Appendix A of DESIGN.md; positions are not compared here (C10).",
      "DESIGN.md section 5, C07")

claim("C08", "metamorphic/round-trip monitor: tokens regenerated from the returned tree vs the real Scan of the source, over exhaustive single-token corruptions and seeded multi-fold corruptions",
      "For every corruption of every corpus program (each token deleted, duplicated, transposed, truncated; each vocabulary token inserted at each position) plus seeded 2-3-fold corruptions and soups, the real Parse runs in a monitored worker; when it accepts, the token sequence regenerated purely from exported tree fields must equal the scanned source modulo the two permitted commas and empty statements. Error tokens can never be regenerated, so accepted lexical errors are caught by the same oracle.",
      "Trusts pqlref/reprint.go and the real Scan as the tokenisation of the source (Scan itself is C09's subject).",
      "DESIGN.md section 5, C08")

claim("C10", "reference-model + invariant monitor: returned tree compared with the printer's expected tree including all spans; reflection invariants (Span() = extent, token boundaries, sibling order, re-scan); error positions vs an independent line/column function",
      "The printer records the byte range of every token it writes, so for every generated program and layout the expected tree with all span fields is known; the real parser's tree must equal it, every node's Span() must equal the extent of its parts, and for corrupted sources every reachable span must be invalid or inside the source and every line:col of Parse/Compile error text must be the image of a byte offset.",
      "Trusts pqlref (printer, Diff, reflection helpers, LineCol).",
      "DESIGN.md section 5, C10")

claim("C11", "invariant monitor: Walk with recording and pruning visitors vs a reflection enumeration of the tree",
      "For every generated program the real Walk runs under panic capture with a recording visitor; the set, multiplicity and order of visited nodes is compared with a reflection walk over exported fields (function names and join kinds excepted), and for each node a pruning run must skip exactly its descendants.",
      "Trusts the reflection enumeration (pqlref/reach.go); node identity is pointer identity.",
      "DESIGN.md section 5, C11")

claim("C01", "reference-model monitor: expression at each position of the real compiler's SQL, parsed by an independent SQL parser and evaluated on enumerated rows, vs a reference evaluator of the PQL tree; exhaustive small trees + seeded deep trees, with and without redundant parentheses",
      "Every nominally well-typed tree with <=2/3 operator nodes and seeded deep trees at all eleven expression positions are compiled by the real compiler in monitored workers (hangs are caught by step hooks); the emitted expression is read with the target dialect's precedence and must have the PQL tree's value on every row of the product of small column domains including NULLs. Parenthesised variants must compile whenever the bare form does.",
      "Trusts sqlmini (lexer, parser, evaluator), pqlref.Eval and the shared value primitives of package val; opaque functions are modelled as injective hashes; SQL precedence is ClickHouse's.",
      "DESIGN.md section 5, C01")

claim("C04", "metamorphic monitor: the real compiler's SQL for each hostile filling of each literal/name hole vs the same skeleton with a neutral filling, read by an independent SQL lexer in two quoting modes, plus decoding of the hole tokens",
      "For 37 skeletons (every position a string, backtick identifier or number can take) and every filling of an exhaustive short hostile alphabet, injection idioms and seeded longer strings, the real compiler runs in monitored workers; the SQL token kind sequence must not depend on the content, no comment/error token may appear, only data tokens may change, and each decodes (ClickHouse rules; numbers as exact rationals) to the PQL value.",
      "Trusts sqlmini.Lex (both modes), pqlref.Tokens for PQL-side decoding, and the choice of ClickHouse as the decoding dialect.",
      "DESIGN.md section 5, C04")

claim("C05", "invariant monitor on every successful Compile of all generators and a site-guided mutation corpus: lexical well-formedness in two modes, single statement, balanced brackets, independent parse, CTE wiring",
      "Every successful compilation produced by typed and syntactic generators, the hand corpus and a per-worker coverage-guided (hook-site signature) mutation corpus is checked against the structural invariant of the property by an independent SQL lexer/parser; table names are taken from the real parser's tree by reflection.",
      "Trusts sqlmini.Lex/Parse; programs calling pass-through functions whose names are SQL syntax or with colliding `as` names are skipped and counted.",
      "DESIGN.md section 5, C05")

claim("C06", "reference-model monitor: lexical scoping model over generated (parameters, lets, query) programs evaluated against the emitted SQL with placeholder bindings, plus metamorphic irrelevance checks for unused bindings, lets after the query and non-substitution positions",
      "Seeded programs with parameter maps, let chains/shadowing and a typed expression using the bound names at every expression position are compiled by the real compiler; the emitted expression, evaluated with the same placeholder values, must equal the scoping model's value on enumerated rows; adding unused bindings or lets after the query, and bindings named like quoted/qualified/function/table/alias positions, must not change the SQL text.",
      "Trusts sqlmini, pqlref.Eval and package val; a parameter's meaning is its snippet read as one operand.",
      "DESIGN.md section 5, C06")

claim("C13", "exactly-when monitor: valid twin programs must compile, the same program with one planted documented misuse (at a random slot, node and nesting) must fail; either/or contract asserted on every call including hostile inputs",
      "Seeded valid programs and their single-plant variants (all built-in arities, $left/$right misuse, bad let values, join kinds, row counts, zero/two queries) are compiled by the real compiler in monitored workers; acceptance of a plant, rejection of a twin, or SQL together with an error (or neither) refutes the property. The either/or contract is also asserted on hostile byte strings, soups, pathological nestings and mutated programs with parameter maps.",
      "Trusts the generator's notion of 'breaks none of the documented rules' (gen/valid.go); render property values and lets after the query are not compiled and carry no plants.",
      "DESIGN.md section 5, C13")

claim("C02", "reference-model monitor: the real compiler's SQL executed by an independent sequential table engine on small database instances vs a left-to-right reference interpreter returning ordered partitions; exhaustive operator sequences + seeded long ones; split decisions observed through a build-tagged hook",
      "Every sequence of the ten join-free operators up to length 3/4 (several seeded argument choices each) and seeded sequences up to length 10 are compiled by the real compiler; the emitted SQL is run on 3/6 instances with duplicates, ties, NULLs and empty tables and must yield the interpreter's columns and rows, in an order the sorts determine. The evidence lists the (previous operator, sorted?, limited?, next operator, attach/new) split states the compiler really went through.",
      "Trusts sqlmini (parser, evaluator, table engine: order-preserving subqueries, stable ORDER BY), pqlref.Interp and package val; excluded program shapes are listed in DESIGN.md section 7; ill-typed instances are not judged.",
      "DESIGN.md section 5, C02")

claim("C03", "reference-model monitor (same engine pair as C02): join kinds x condition forms x prefixes x right-hand pipelines (nested joins, several joins) executed on instances with duplicate/unmatched left rows and NULL keys vs the reference join",
      "Seeded join pipelines covering all kinds, condition forms, left prefixes, right-hand pipelines with nested joins and join sequences are compiled by the real compiler and executed by the independent engine; the result must be the reference join of the interpreter's left result with the independently interpreted right pipeline, followed by the suffix operators.",
      "As C02; columns present on both sides are never referenced after the join.",
      "DESIGN.md section 5, C03")

claim("C14", "Go race detector over many short fresh-process histories (barrier-released first calls, build-tagged pause hook in the lazy initialisation) + offline history check against first-and-only-call reference outputs from fresh single-goroutine processes",
      "Each child process (race build) releases 2-64 goroutines at once so that their first Compile calls overlap in the lazy function-table initialisation (held open by the pause hook in half of the children), then runs a seeded mix of Compile/Parse/Scan with one shared CompileOptions; zero race reports are required, every recorded output must equal the output of the same call made alone in a fresh process, and the shared parameter map must be unchanged. Held = no report and no divergence on the schedules produced; schedules are not enumerated.",
      "Trusts the Go race detector (happens-before races on executed accesses only) and sha256 equality of printed results; the harness adds no synchronisation between calls.",
      "DESIGN.md section 5, C14")

claim("C16", "process-level monitor: the real cmd/pql binary run on generated scripts under five delivery modes and injected read faults (long line, directory, missing file, strace EIO), compared with a per-statement model computed from the generator's statement list",
      "The binary built from the working tree is executed as a child process (always under a SIGKILL timeout) on seeded scripts of let/query/invalid statements in varied layouts, delivered via stdin, one file, several files cut at arbitrary bytes, '-' among files and -o; stdout must equal the concatenation of the library's SQL for each query with the accepted lets in scope, the exit status must be non-zero exactly when a statement failed or input could not be read, and stderr must carry a line per failure. Read faults are injected with strace and by file-system means.",
      "Trusts the statement list of the generator (not a re-split of the text), the library's Compile for per-statement SQL, and strace's log for whether an injection fired.",
      "DESIGN.md section 5, C16")
