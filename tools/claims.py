# Table of claimed checks, exec'd by mkmanifest.py.
NOT_CLAIMED = {}

claim("C09", "reference-model monitor: real Scan vs independent longest-match tokenizer + partition/re-scan/accessor invariants on exhaustive short strings and seeded byte soups",
      "Every input of a complete enumeration of short strings over two 16-symbol alphabets (all scanner states), of seeded byte strings, token soups and corpus prefixes is scanned by the real lexer in a monitored worker; an independently written tokenizer and four boundary invariants decide each execution. Held = no difference on the executions listed in the evidence; it is not a proof for longer inputs.",
      "Trusts the reference tokenizer (pqlref/tokens.go, written from the property text), math/big, and the Go runtime; error-token messages are not compared.",
      "DESIGN.md section 5, C09")
