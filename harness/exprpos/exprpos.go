// Package exprpos places an expression at each expression position of a
// program and finds the corresponding expression in the emitted SQL.
package exprpos

import (
	"fmt"
	"strings"

	. "verif/harness/pqlref"
	"verif/harness/sqlmini"
	"verif/harness/val"
)

// Positions lists every expression position.
var Positions = []string{"where", "project", "extend", "extend-unnamed", "summarize-agg", "summarize-key", "sort", "top", "take", "let", "let-chain", "where-then-lets", "join-on", "join-on-nested"}

// build wraps the surface expression into a program for the position.
func Build(pos string, sx *E) *Program {
	id := func(n string) *Ident { return &Ident{Name: n} }
	switch pos {
	case "where":
		return Query("T", &Op{K: "where", X: sx})
	case "project":
		return Query("T", &Op{K: "project", Cols: []Col{{Name: id("r"), X: sx}}})
	case "project-name":
		// `project name`: the column is both the alias and the expression
		if sx.K == "name" && len(sx.Parts) == 1 {
			n := sx.Parts[0]
			return Query("T", &Op{K: "project", Cols: []Col{{Name: &n}, {Name: id("id")}}})
		}
		return Query("T", &Op{K: "project", Cols: []Col{{Name: id("r"), X: sx}}})
	case "extend":
		return Query("T", &Op{K: "extend", Cols: []Col{{Name: id("r"), X: sx}}})
	case "extend-unnamed":
		return Query("T", &Op{K: "extend", Cols: []Col{{X: sx}}})
	case "summarize-agg":
		return Query("T", &Op{K: "summarize", Cols: []Col{{Name: id("r"), X: sx}}, HasBy: true, By: []Col{{Name: id("g"), X: Name("ia")}}})
	case "summarize-key":
		return Query("T", &Op{K: "summarize", Cols: []Col{{Name: id("n"), X: Call("count")}}, HasBy: true, By: []Col{{Name: id("r"), X: sx}}})
	case "sort":
		return Query("T", &Op{K: "sort", Terms: []SortTerm{{X: sx}}})
	case "top":
		return Query("T", &Op{K: "top", X: Num("3"), Terms: []SortTerm{{X: sx, Dir: "asc"}}})
	case "take":
		return Query("T", &Op{K: "take", X: sx})
	case "let":
		return &Program{Stmts: []*Stmt{{LetName: id("v"), LetX: sx}, {Pipe: &Pipe{Table: Ident{Name: "T"}, Ops: []*Op{{K: "extend", Cols: []Col{{Name: id("r"), X: Name("v")}}}}}}}}
	case "where-then-lets":
		// lets written after the query bind the names of its columns: no effect
		let := func(n string, x *E) *Stmt { return &Stmt{LetName: id(n), LetX: x} }
		return &Program{Stmts: []*Stmt{
			{Pipe: &Pipe{Table: Ident{Name: "T"}, Ops: []*Op{{K: "where", X: sx}}}},
			let("ia", Num("5")), let("ib", Un("-", Num("1"))), let("sa", StrLit("x", false)), let("sb", Name("sa")), let("ba", Name("true")), let("bb", Name("false")), let("ma", Num("0")), let("true", Name("false"))}}
	case "let-chain":
		// the value sits between lets of other shapes (signed, string,
		// parenthesised before; signed after): nothing of theirs may reach it
		let := func(n string, x *E) *Stmt { return &Stmt{LetName: id(n), LetX: x} }
		return &Program{Stmts: []*Stmt{
			let("z0", Un("-", Num("1"))), let("z1", StrLit("q", false)), let("z2", Un("+", Num("2"))),
			let("v", sx),
			let("z3", Un("-", Num("3"))),
			{Pipe: &Pipe{Table: Ident{Name: "T"}, Ops: []*Op{{K: "extend", Cols: []Col{{Name: id("r"), X: Name("v")}}}}}}}}
	case "join-on":
		return Query("T", &Op{K: "join", Kind: "inner", Right: &Pipe{Table: Ident{Name: "U"}}, Conds: []*E{sx}})
	case "join-on-nested":
		inner := &Op{K: "join", Kind: "inner", Right: &Pipe{Table: Ident{Name: "V"}}, Conds: []*E{sx}}
		return Query("T", &Op{K: "where", X: Name("ba")}, &Op{K: "join", Kind: "leftouter", Right: &Pipe{Table: Ident{Name: "U"}, Ops: []*Op{{K: "where", X: Name("bb")}, inner}}, Conds: []*E{Name("k")}})
	}
	panic("c01: position " + pos)
}

// locate finds the SQL expression at the position.
func Locate(pos string, st *sqlmini.Stmt) (*sqlmini.X, string) {
	var sel *sqlmini.Select
	if pos == "join-on-nested" {
		// the inner join is the first JOIN of the statement
		for _, c := range st.CTEs {
			if c.Sel.From.Join != nil {
				return c.Sel.From.Join.On, ""
			}
		}
		return nil, "no JOIN in the statement"
	}
	if pos == "join-on" {
		for _, c := range st.CTEs {
			if c.Sel.From.Join != nil {
				sel = c.Sel
			}
		}
		if st.Body.From.Join != nil {
			sel = st.Body
		}
		if sel == nil {
			return nil, "no JOIN in the statement"
		}
		return sel.From.Join.On, ""
	}
	sel = st.Body
	item := func(i int) (*sqlmini.X, string) {
		if i >= len(sel.Items) || sel.Items[i].Star {
			return nil, fmt.Sprintf("select list has no expression at index %d", i)
		}
		return sel.Items[i].X, ""
	}
	switch pos {
	case "where", "where-then-lets":
		if sel.Where == nil {
			return nil, "no WHERE clause"
		}
		return sel.Where, ""
	case "project", "project-name":
		return item(0)
	case "extend", "extend-unnamed", "let", "let-chain":
		return item(1)
	case "summarize-agg":
		return item(1)
	case "summarize-key":
		if len(sel.GroupBy) != 1 {
			return nil, "no single GROUP BY key"
		}
		return item(0)
	case "sort", "top":
		if len(sel.OrderBy) != 1 {
			return nil, "no single ORDER BY term"
		}
		return sel.OrderBy[0].X, ""
	case "take":
		if sel.Limit == nil {
			return nil, "no LIMIT"
		}
		return sel.Limit, ""
	}
	return nil, "unknown position"
}

func ToEnv(row Row) *sqlmini.Env {
	env := sqlmini.NewEnv()
	for k, v := range row {
		env.Set(v, strings.Split(k, "\x1f")...)
	}
	return env
}

func IsTrue(v val.V) string {
	if v.K == val.Err {
		return "ERROR"
	}
	if v.K == val.Bool && v.B {
		return "TRUE"
	}
	return "not TRUE"
}

func RowString(row Row) string {
	var p []string
	for k, v := range row {
		p = append(p, strings.ReplaceAll(k, "\x1f", ".")+"="+v.String())
	}
	return "{" + strings.Join(val.SortStrings(p), ", ") + "}"
}

// Joinify qualifies every column with $left or $right and keeps `==`
// between the two sides at conjunct positions only.
func Joinify(x *E, bound map[string]bool, rng interface{ Intn(int) int }) *E {
	var q func(e *E, side string) *E
	q = func(e *E, side string) *E {
		c := *e
		if e.K == "name" && !(len(e.Parts) == 1 && !e.Parts[0].Quoted && (bound[e.Parts[0].Name] || e.Parts[0].Name == "true" || e.Parts[0].Name == "false" || e.Parts[0].Name == "null")) {
			s := side
			if s == "" {
				s = []string{"$left", "$right"}[rng.Intn(2)]
			}
			c.Parts = append([]Ident{{Name: s}}, e.Parts...)
			return &c
		}
		c.Kids = nil
		for _, k := range e.Kids {
			c.Kids = append(c.Kids, q(k, side))
		}
		return &c
	}
	// one side per comparison operand, so that a comparison never mixes both
	// sides below an `==` that is not a conjunct
	var top func(e *E) *E
	top = func(e *E) *E {
		if e.K == "bin" && e.Op == "and" {
			return Bin("and", top(e.Kids[0]), top(e.Kids[1]))
		}
		if e.K == "bin" && e.Op == "==" {
			return Bin("==", q(e.Kids[0], "$left"), q(e.Kids[1], "$right"))
		}
		return q(e, []string{"$left", "$right"}[rng.Intn(2)])
	}
	return top(x)
}
