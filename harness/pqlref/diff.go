package pqlref

import (
	"fmt"
	"reflect"

	"github.com/runreveal/pql/parser"
)

var basicLitType = reflect.TypeOf(parser.BasicLit{})

// Diff compares two parser values field by field and describes the first
// difference ("" if none). With spans == false, span fields are only compared
// for validity (a part is present or absent). nil and empty slices are equal;
// number literal values are compared numerically.
func Diff(got, want any, spans bool) string {
	return diff(reflect.ValueOf(got), reflect.ValueOf(want), "", spans)
}

func diff(g, w reflect.Value, path string, spans bool) string {
	if !g.IsValid() || !w.IsValid() {
		if g.IsValid() != w.IsValid() {
			return fmt.Sprintf("%s: got %v, want %v", path, g, w)
		}
		return ""
	}
	if g.Type() != w.Type() {
		return fmt.Sprintf("%s: got a %v, want a %v", path, g.Type(), w.Type())
	}
	switch g.Kind() {
	case reflect.Interface, reflect.Ptr:
		if g.IsNil() || w.IsNil() {
			if g.IsNil() != w.IsNil() {
				return fmt.Sprintf("%s: got nil=%v, want nil=%v", path, g.IsNil(), w.IsNil())
			}
			return ""
		}
		if g.Kind() == reflect.Interface && g.Elem().Type() != w.Elem().Type() {
			return fmt.Sprintf("%s: got a %v, want a %v", path, g.Elem().Type(), w.Elem().Type())
		}
		return diff(g.Elem(), w.Elem(), path, spans)
	case reflect.Struct:
		if g.Type() == spanType {
			gs, ws := g.Interface().(parser.Span), w.Interface().(parser.Span)
			if spans {
				if gs.IsValid() != ws.IsValid() || (gs.IsValid() && gs != ws) {
					return fmt.Sprintf("%s: span %v, want %v", path, gs, ws)
				}
			} else if gs.IsValid() != ws.IsValid() {
				return fmt.Sprintf("%s: span present=%v, want present=%v", path, gs.IsValid(), ws.IsValid())
			}
			return ""
		}
		if g.Type() == basicLitType {
			gl, wl := g.Interface().(parser.BasicLit), w.Interface().(parser.BasicLit)
			if gl.Kind == parser.TokenNumber && wl.Kind == parser.TokenNumber {
				gn, ok1 := NumberValue(gl.Value)
				wn, ok2 := NumberValue(wl.Value)
				if !ok1 || !ok2 || !gn.Equal(wn) {
					return fmt.Sprintf("%s.Value: number %q, want a spelling of %q", path, gl.Value, wl.Value)
				}
				return diff(g.FieldByName("ValueSpan"), w.FieldByName("ValueSpan"), path+".ValueSpan", spans)
			}
		}
		for i := 0; i < g.NumField(); i++ {
			f := g.Type().Field(i)
			if !f.IsExported() {
				continue
			}
			if d := diff(g.Field(i), w.Field(i), path+"."+f.Name, spans); d != "" {
				return d
			}
		}
		return ""
	case reflect.Slice:
		if g.Len() != w.Len() {
			return fmt.Sprintf("%s: %d elements, want %d", path, g.Len(), w.Len())
		}
		for i := 0; i < g.Len(); i++ {
			if d := diff(g.Index(i), w.Index(i), fmt.Sprintf("%s[%d]", path, i), spans); d != "" {
				return d
			}
		}
		return ""
	default:
		if g.Interface() != w.Interface() {
			return fmt.Sprintf("%s: got %#v, want %#v", path, g.Interface(), w.Interface())
		}
		return ""
	}
}
