package pqlref

import (
	"fmt"
	"sort"
	"strings"

	"verif/harness/val"
)

// RTable is a base table for the reference interpreter.
type RTable struct {
	Cols []string
	Rows [][]val.V
}

// Rel is the result of interpreting a pipeline: an ordered partition of rows.
// Groups is a sequence of tie groups, each a multiset of rows: exactly the
// set of row orders the language's semantics permits. Weak means the content
// is not determined by the semantics (a take cut through a tie group);
// Count is then the number of rows if that is still determined, else -1.
type Rel struct {
	Cols   []string
	Groups [][][]val.V
	Weak   bool
	Count  int
	// Effects: which operators changed something on this instance (for the
	// non-triviality rule).
	Effects map[string]bool
}

// InterpError: the program is ill-typed on this instance (the reference
// cannot give it a meaning) or uses something outside the modelled subset.
type InterpError struct{ Msg string }

func (e *InterpError) Error() string { return e.Msg }

func ierr(format string, args ...any) *InterpError { return &InterpError{fmt.Sprintf(format, args...)} }

func (r *Rel) flat() [][]val.V {
	var out [][]val.V
	for _, g := range r.Groups {
		out = append(out, g...)
	}
	return out
}

// NRows is the number of rows (when not weak).
func (r *Rel) NRows() int {
	n := 0
	for _, g := range r.Groups {
		n += len(g)
	}
	return n
}

func rowEnv(cols []string, vals []val.V, ambiguous map[string]bool) Row {
	row := Row{}
	for i, c := range cols {
		if ambiguous[c] {
			continue
		}
		row[c] = vals[i]
	}
	return row
}

func dupNames(cols []string) map[string]bool {
	seen := map[string]bool{}
	amb := map[string]bool{}
	for _, c := range cols {
		if seen[c] {
			amb[c] = true
		}
		seen[c] = true
	}
	return amb
}

// Interp applies the operators of a pipeline one after another, left to
// right, to the tables of db. bind resolves let bindings and parameters.
// The program must have been printed first (implicit column names).
func Interp(p *Pipe, db map[string]*RTable, bind func(string) (val.V, bool)) (*Rel, error) {
	// the database is extended locally with the results named by `as`
	local := map[string]*RTable{}
	for k, v := range db {
		local[k] = v
	}
	db = local
	return interp(p, db, bind)
}

// weakTable marks a named intermediate result whose content is not determined.
var weakTable = &RTable{}

func interp(p *Pipe, db map[string]*RTable, bind func(string) (val.V, bool)) (*Rel, error) {
	t, ok := db[p.Table.Name]
	if !ok {
		return nil, ierr("unknown table %q", p.Table.Name)
	}
	if t.Cols == nil && t == weakTable {
		return nil, ierr("reads a named result whose content is not determined")
	}
	rel := &Rel{Cols: append([]string{}, t.Cols...), Count: -1, Effects: map[string]bool{}}
	if len(t.Rows) > 0 {
		rel.Groups = [][][]val.V{append([][]val.V{}, t.Rows...)}
	}
	for _, op := range p.Ops {
		var err error
		rel, err = applyOp(rel, op, db, bind)
		if err != nil {
			return nil, err
		}
	}
	return rel, nil
}

func colName(c Col) string {
	if c.Name != nil {
		return c.Name.Name
	}
	return c.Implicit
}

func constInt(e *E, bind func(string) (val.V, bool)) (int, error) {
	v := Eval(e, &EvalCtx{Row: Row{}, Bind: bind})
	if v.K == val.Float && v.F >= 9.2e18 && e.K == "num" {
		return int(^uint(0) >> 1), nil // an integer literal beyond int64: more rows than any table has
	}
	if v.K != val.Int || v.I < 0 {
		return 0, ierr("row count is not a non-negative integer constant: %v", v)
	}
	return int(v.I), nil
}

func applyOp(in *Rel, op *Op, db map[string]*RTable, bind func(string) (val.V, bool)) (*Rel, error) {
	amb := dupNames(in.Cols)
	if op.K != "join" && len(amb) > 0 {
		// a reference to a column name the input carries twice has no meaning,
		// whether or not the instance has a row to evaluate it on
		if n := ambiguousRef(op, amb, bind); n != "" {
			return nil, ierr("operator %s refers to column %q, which its input has more than once", op.K, n)
		}
	}
	ctxOf := func(vals []val.V) *EvalCtx { return &EvalCtx{Row: rowEnv(in.Cols, vals, amb), Bind: bind} }
	out := &Rel{Cols: in.Cols, Weak: in.Weak, Count: in.Count, Effects: in.Effects}
	// mapRows applies f to every row, keeping the partition.
	mapRows := func(f func(vals []val.V) ([]val.V, error)) error {
		for _, g := range in.Groups {
			var ng [][]val.V
			for _, r := range g {
				nr, err := f(r)
				if err != nil {
					return err
				}
				ng = append(ng, nr)
			}
			out.Groups = append(out.Groups, ng)
		}
		return nil
	}
	switch op.K {
	case "as":
		out.Groups = in.Groups
		if in.Weak {
			db[op.Name.Name] = weakTable
		} else {
			db[op.Name.Name] = &RTable{Cols: in.Cols, Rows: in.flat()}
		}
		return out, nil
	case "where":
		for _, g := range in.Groups {
			var ng [][]val.V
			for _, r := range g {
				v := Eval(op.X, ctxOf(r))
				if v.K == val.Err || (v.K != val.Bool && v.K != val.Null) {
					return nil, ierr("where predicate is not boolean on this instance: %v", v)
				}
				if v.K == val.Bool && v.B {
					ng = append(ng, r)
				} else {
					out.Effects["where-filtered"] = true
				}
			}
			if len(ng) > 0 {
				out.Groups = append(out.Groups, ng)
			}
		}
		if in.Weak {
			out.Count = -1
		}
		return out, nil
	case "project":
		out.Cols = nil
		for _, c := range op.Cols {
			out.Cols = append(out.Cols, c.Name.Name)
		}
		err := mapRows(func(vals []val.V) ([]val.V, error) {
			var nr []val.V
			for _, c := range op.Cols {
				x := c.X
				if x == nil {
					x = &E{K: "name", Parts: []Ident{*c.Name}}
				}
				v := Eval(x, ctxOf(vals))
				if v.K == val.Err {
					return nil, ierr("project column %s is ill-typed on this instance", c.Name.Name)
				}
				nr = append(nr, v)
			}
			return nr, nil
		})
		out.Effects["project"] = true
		return out, err
	case "extend":
		out.Cols = append([]string{}, in.Cols...)
		for _, c := range op.Cols {
			out.Cols = append(out.Cols, colName(c))
		}
		err := mapRows(func(vals []val.V) ([]val.V, error) {
			nr := append([]val.V{}, vals...)
			for _, c := range op.Cols {
				v := Eval(c.X, ctxOf(vals))
				if v.K == val.Err {
					return nil, ierr("extend column %s is ill-typed on this instance", colName(c))
				}
				nr = append(nr, v)
			}
			return nr, nil
		})
		out.Effects["extend"] = true
		return out, err
	case "render":
		out.Cols = append(append([]string{}, in.Cols...), "render_type")
		extra := []val.V{val.S(op.Name.Name)}
		for _, pr := range op.Props {
			out.Cols = append(out.Cols, "render_prop_"+pr.Name.Name)
			switch pr.Val.K {
			case "str":
				extra = append(extra, val.S(pr.Val.Val))
			case "num":
				extra = append(extra, val.S(pr.Val.Lit))
			case "name":
				extra = append(extra, val.S(pr.Val.Parts[0].Name))
			default:
				return nil, ierr("render property value outside the modelled subset")
			}
		}
		err := mapRows(func(vals []val.V) ([]val.V, error) {
			return append(append([]val.V{}, vals...), extra...), nil
		})
		return out, err
	case "count":
		out.Cols = []string{"count()"}
		if in.Weak {
			if in.Count < 0 {
				out.Count = 1
				return out, nil
			}
			out.Weak = false
			out.Groups = [][][]val.V{{{val.I(int64(in.Count))}}}
			out.Count = -1
			return out, nil
		}
		out.Groups = [][][]val.V{{{val.I(int64(in.NRows()))}}}
		out.Effects["count"] = true
		return out, nil
	case "sort", "top":
		if !in.Weak {
			g, err := sortRows(in, op.Terms, bind, amb)
			if err != nil {
				return nil, err
			}
			if len(in.Groups) != len(g) || len(in.Groups) > 1 {
				out.Effects["sort-reordered"] = true
			}
			out.Groups = g
		}
		if op.K == "sort" {
			return out, nil
		}
		sorted := out
		return takeRows(sorted, op.X, bind)
	case "take":
		out.Groups = in.Groups
		return takeRows(out, op.X, bind)
	case "summarize":
		return summarize(in, op, bind, amb)
	case "join":
		return join(in, op, db, bind)
	}
	return nil, ierr("operator %s outside the modelled subset", op.K)
}

func takeRows(in *Rel, nx *E, bind func(string) (val.V, bool)) (*Rel, error) {
	n, err := constInt(nx, bind)
	if err != nil {
		return nil, err
	}
	out := &Rel{Cols: in.Cols, Weak: in.Weak, Count: in.Count, Effects: in.Effects}
	if in.Weak {
		if in.Count >= 0 && n < in.Count {
			out.Count = n
		}
		return out, nil
	}
	left := n
	for _, g := range in.Groups {
		if left == 0 {
			out.Effects["take-cut"] = true
			break
		}
		if len(g) <= left {
			out.Groups = append(out.Groups, g)
			left -= len(g)
			continue
		}
		// the cut falls inside a tie group: which rows survive is not determined,
		// unless all rows of the group are identical
		same := true
		for _, r := range g[1:] {
			if val.RowString(r) != val.RowString(g[0]) {
				same = false
				break
			}
		}
		out.Effects["take-cut"] = true
		if same {
			out.Groups = append(out.Groups, g[:left])
			left = 0
			break
		}
		total := 0
		for _, gg := range in.Groups {
			total += len(gg)
		}
		out.Weak = true
		out.Groups = nil
		out.Count = n
		if total < n {
			out.Count = total
		}
		return out, nil
	}
	return out, nil
}

func sortDefaults(t SortTerm) (desc, nullsFirst bool) {
	desc = t.Dir != "asc"
	nullsFirst = t.Dir == "asc"
	switch t.Nulls {
	case "first":
		nullsFirst = true
	case "last":
		nullsFirst = false
	}
	return
}

func sortRows(in *Rel, terms []SortTerm, bind func(string) (val.V, bool), amb map[string]bool) ([][][]val.V, error) {
	rows := in.flat()
	keys := make([][]val.V, len(rows))
	for i, r := range rows {
		for _, t := range terms {
			v := Eval(t.X, &EvalCtx{Row: rowEnv(in.Cols, r, amb), Bind: bind})
			if v.K == val.Err {
				return nil, ierr("sort key is ill-typed on this instance")
			}
			keys[i] = append(keys[i], v)
		}
	}
	for ti := range terms {
		var ref *val.V
		for i := range keys {
			v := keys[i][ti]
			if v.K == val.Null {
				continue
			}
			if ref == nil {
				ref = &keys[i][ti]
			} else if !val.Comparable(*ref, v) {
				return nil, ierr("sort key has values of incomparable types on this instance")
			}
		}
	}
	cmp := func(a, b []val.V) int {
		for ti, t := range terms {
			desc, nf := sortDefaults(t)
			x, y := a[ti], b[ti]
			xn, yn := x.K == val.Null, y.K == val.Null
			c := 0
			switch {
			case xn && yn:
			case xn:
				if nf {
					c = -1
				} else {
					c = 1
				}
			case yn:
				if nf {
					c = 1
				} else {
					c = -1
				}
			default:
				if val.Less(x, y) {
					c = -1
				} else if val.Less(y, x) {
					c = 1
				}
				if desc {
					c = -c
				}
			}
			if c != 0 {
				return c
			}
		}
		return 0
	}
	idx := make([]int, len(rows))
	for i := range idx {
		idx[i] = i
	}
	sort.SliceStable(idx, func(a, b int) bool { return cmp(keys[idx[a]], keys[idx[b]]) < 0 })
	var groups [][][]val.V
	for n, i := range idx {
		if n > 0 && cmp(keys[idx[n-1]], keys[i]) == 0 {
			groups[len(groups)-1] = append(groups[len(groups)-1], rows[i])
		} else {
			groups = append(groups, [][]val.V{rows[i]})
		}
	}
	return groups, nil
}

func summarize(in *Rel, op *Op, bind func(string) (val.V, bool), amb map[string]bool) (*Rel, error) {
	out := &Rel{Count: -1, Effects: in.Effects}
	for _, c := range op.By {
		out.Cols = append(out.Cols, colName(c))
	}
	for _, c := range op.Cols {
		out.Cols = append(out.Cols, colName(c))
	}
	if in.Weak {
		out.Weak = true
		if len(op.By) == 0 {
			out.Count = 1
		}
		return out, nil
	}
	rows := in.flat()
	var order []string
	groups := map[string][]Row{}
	keyVals := map[string][]val.V{}
	if len(op.By) == 0 {
		order = []string{""}
		groups[""] = []Row{}
		for _, r := range rows {
			groups[""] = append(groups[""], rowEnv(in.Cols, r, amb))
		}
	} else {
		for _, r := range rows {
			env := rowEnv(in.Cols, r, amb)
			var kv []val.V
			for _, c := range op.By {
				v := Eval(c.X, &EvalCtx{Row: env, Bind: bind})
				if v.K == val.Err {
					return nil, ierr("summarize key is ill-typed on this instance")
				}
				kv = append(kv, v)
			}
			k := val.RowString(kv)
			if _, ok := groups[k]; !ok {
				order = append(order, k)
				keyVals[k] = kv
			}
			groups[k] = append(groups[k], env)
		}
	}
	var res [][]val.V
	for _, k := range order {
		g := groups[k]
		row := append([]val.V{}, keyVals[k]...)
		first := Row{}
		if len(g) > 0 {
			first = g[0]
		}
		grp := g
		if grp == nil {
			grp = []Row{}
		}
		for _, c := range op.Cols {
			v := Eval(c.X, &EvalCtx{Row: first, Group: grp, Bind: bind})
			if v.K == val.Err {
				return nil, ierr("summarize aggregate is ill-typed on this instance")
			}
			row = append(row, v)
		}
		res = append(res, row)
	}
	if len(res) > 0 {
		out.Groups = [][][]val.V{res}
	}
	if len(res) != len(rows) {
		out.Effects["summarize-merged"] = true
	}
	out.Effects["summarize"] = true
	return out, nil
}

func join(in *Rel, op *Op, db map[string]*RTable, bind func(string) (val.V, bool)) (*Rel, error) {
	right, err := interp(op.Right, db, bind)
	if err != nil {
		return nil, err
	}
	out := &Rel{Cols: append(append([]string{}, in.Cols...), right.Cols...), Count: -1, Effects: in.Effects}
	for k := range right.Effects {
		out.Effects["right:"+k] = true
	}
	if in.Weak || right.Weak {
		out.Weak = true
		return out, nil
	}
	kind := op.Kind
	if kind == "" {
		kind = "innerunique"
	}
	lrows := in.flat()
	if kind == "innerunique" {
		seen := map[string]bool{}
		var d [][]val.V
		for _, r := range lrows {
			k := val.RowString(r)
			if !seen[k] {
				seen[k] = true
				d = append(d, r)
			} else {
				out.Effects["join-dedup"] = true
			}
		}
		lrows = d
	}
	rrows := right.flat()
	lamb, ramb := dupNames(in.Cols), dupNames(right.Cols)
	both := map[string]bool{}
	lset := map[string]bool{}
	for _, c := range in.Cols {
		lset[c] = true
	}
	for _, c := range right.Cols {
		if lset[c] {
			both[c] = true
		}
	}
	// conditions: a bare unquoted single name k (not a built-in constant, not
	// a binding) means $left.k == $right.k
	var conds []*E
	for _, c := range op.Conds {
		m := StripParens(c)
		if c.K == "name" && len(c.Parts) == 1 && !c.Parts[0].Quoted {
			n := c.Parts[0].Name
			_, bound := func() (val.V, bool) {
				if bind == nil {
					return val.NULL, false
				}
				return bind(n)
			}()
			if n != "true" && n != "false" && n != "null" && !bound {
				m = Bin("==", Name("$left", n), Name("$right", n))
			}
		}
		conds = append(conds, m)
	}
	nulls := make([]val.V, len(right.Cols))
	var res [][]val.V
	for _, l := range lrows {
		matched := false
		for _, r := range rrows {
			env := Row{}
			for i, c := range in.Cols {
				if !lamb[c] {
					env["$left\x1f"+c] = l[i]
					if !both[c] {
						env[c] = l[i]
					}
				}
			}
			for i, c := range right.Cols {
				if !ramb[c] {
					env["$right\x1f"+c] = r[i]
					if !both[c] {
						env[c] = r[i]
					}
				}
			}
			ok := true
			for _, c := range conds {
				v := Eval(c, &EvalCtx{Row: env, Bind: bind})
				if v.K == val.Err || (v.K != val.Bool && v.K != val.Null) {
					return nil, ierr("join condition is ill-typed on this instance")
				}
				if !(v.K == val.Bool && v.B) {
					ok = false
					break
				}
			}
			if ok {
				matched = true
				res = append(res, append(append([]val.V{}, l...), r...))
			}
		}
		if !matched {
			if kind == "leftouter" {
				res = append(res, append(append([]val.V{}, l...), nulls...))
				out.Effects["join-padded"] = true
			} else {
				out.Effects["join-dropped-left"] = true
			}
		}
	}
	if len(res) > 0 {
		out.Groups = [][][]val.V{res}
	}
	out.Effects["join"] = true
	return out, nil
}

// Conform checks that an observed row sequence is one of the orders the
// ordered partition permits: consecutive chunks of the group sizes must equal
// the groups as multisets. It returns "" or a description of the mismatch.
func (r *Rel) Conform(cols []string, rows [][]val.V) string {
	if strings.Join(cols, "\x1f") != strings.Join(r.Cols, "\x1f") {
		return fmt.Sprintf("columns are %q, expected %q", cols, r.Cols)
	}
	if r.Weak {
		if r.Count >= 0 && len(rows) != r.Count {
			return fmt.Sprintf("%d rows, expected %d", len(rows), r.Count)
		}
		return ""
	}
	if len(rows) != r.NRows() {
		return fmt.Sprintf("%d rows, expected %d", len(rows), r.NRows())
	}
	at := 0
	for gi, g := range r.Groups {
		want := map[string]int{}
		for _, row := range g {
			want[val.RowString(row)]++
		}
		for _, row := range rows[at : at+len(g)] {
			k := val.RowString(row)
			if want[k] == 0 {
				return fmt.Sprintf("row %d (%s) does not belong at this position: rows %d..%d must be, in any order, %s", at, k, at, at+len(g)-1, groupString(g))
			}
			want[k]--
		}
		at += len(g)
		_ = gi
	}
	return ""
}

func groupString(g [][]val.V) string {
	var p []string
	for _, r := range g {
		p = append(p, "("+val.RowString(r)+")")
	}
	sort.Strings(p)
	if len(p) > 8 {
		p = append(p[:8], "…")
	}
	return "{" + strings.Join(p, ", ") + "}"
}

// String renders the ordered partition.
func (r *Rel) String() string {
	var sb strings.Builder
	sb.WriteString("[" + strings.Join(r.Cols, ", ") + "]")
	if r.Weak {
		fmt.Fprintf(&sb, " content not determined (row count %d)", r.Count)
		return sb.String()
	}
	for i, g := range r.Groups {
		fmt.Fprintf(&sb, "\n    group %d: %s", i, groupString(g))
	}
	return sb.String()
}

// ambiguousRef names a column an operator's expressions refer to that is in
// amb (and not bound), or "".
func ambiguousRef(op *Op, amb map[string]bool, bind func(string) (val.V, bool)) string {
	found := ""
	var walk func(e *E)
	walk = func(e *E) {
		if e == nil || found != "" {
			return
		}
		if e.K == "name" && len(e.Parts) == 1 && amb[e.Parts[0].Name] {
			bound := false
			if bind != nil && !e.Parts[0].Quoted {
				_, bound = bind(e.Parts[0].Name)
			}
			if !bound {
				found = e.Parts[0].Name
				return
			}
		}
		for _, k := range e.Kids {
			walk(k)
		}
	}
	walk(op.X)
	for _, t := range op.Terms {
		walk(t.X)
	}
	for _, c := range op.Cols {
		if c.X == nil && c.Name != nil && amb[c.Name.Name] {
			return c.Name.Name
		}
		walk(c.X)
	}
	for _, c := range op.By {
		walk(c.X)
	}
	return found
}
