package pqlref

import (
	"fmt"

	"github.com/runreveal/pql/parser"
)

// TK is a (kind, value) pair: the significant content of a token.
type TK struct {
	K parser.TokenKind
	V string
	// Tag marks tokens before which the source may carry an extra comma:
	// "call)" for the closing parenthesis of a call, "summarize-by".
	Tag string
}

type reprinter struct {
	src string
	out []TK
	err string
}

// Reprint regenerates the significant token sequence of a parsed program
// purely from the exported fields of its tree. Keyword text is read from the
// keyword spans (so synonyms come back as written). It reports an error
// string if the tree cannot be printed (nil where a part is required).
func Reprint(src string, stmts []parser.Statement) ([]TK, string) {
	p := &reprinter{src: src}
	for i, s := range stmts {
		if i > 0 {
			p.t(parser.TokenSemi)
		}
		switch s := s.(type) {
		case *parser.LetStatement:
			p.kwAt(s.Keyword, "let")
			p.ident(s.Name)
			p.t(parser.TokenAssign)
			p.expr(s.X)
		case *parser.TabularExpr:
			p.tab(s)
		default:
			p.fail(fmt.Sprintf("statement %T", s))
		}
	}
	return p.out, p.err
}

func (p *reprinter) fail(s string) {
	if p.err == "" {
		p.err = s
	}
}
func (p *reprinter) t(k parser.TokenKind) { p.out = append(p.out, TK{K: k}) }

// kwAt emits the keyword found at span sp in the source (first word of it),
// falling back to def.
func (p *reprinter) kwAt(sp parser.Span, def string) {
	word := def
	if sp.IsValid() && sp.End <= len(p.src) {
		toks := Tokens(p.src[sp.Start:sp.End])
		if len(toks) > 0 && toks[0].Kind == parser.TokenIdentifier {
			// only the spellings the language has for this operator are taken over
			// from the source (an operator parsed from any other word prints back
			// under its own name, which then differs from the source)
			if w := toks[0].Val; w == def || kwSynonyms[def] == w {
				word = w
			}
		}
	}
	p.out = append(p.out, TK{K: parser.TokenIdentifier, V: word})
}
var kwSynonyms = map[string]string{"where": "filter", "sort": "order", "take": "limit"}

func (p *reprinter) word(w string) { p.out = append(p.out, TK{K: parser.TokenIdentifier, V: w}) }

func (p *reprinter) ident(id *parser.Ident) {
	if id == nil {
		p.fail("nil identifier")
		return
	}
	if id.Quoted {
		p.out = append(p.out, TK{K: parser.TokenQuotedIdentifier, V: id.Name})
	} else {
		p.out = append(p.out, TK{K: parser.TokenIdentifier, V: id.Name})
	}
}

func (p *reprinter) tab(x *parser.TabularExpr) {
	if x == nil {
		p.fail("nil tabular expression")
		return
	}
	tr, ok := x.Source.(*parser.TableRef)
	if !ok || tr == nil {
		p.fail("data source")
		return
	}
	p.ident(tr.Table)
	for _, op := range x.Operators {
		p.t(parser.TokenPipe)
		switch op := op.(type) {
		case *parser.CountOperator:
			p.kwAt(op.Keyword, "count")
		case *parser.WhereOperator:
			p.kwAt(op.Keyword, "where")
			p.expr(op.Predicate)
		case *parser.SortOperator:
			p.kwAt(op.Keyword, "sort")
			p.t(parser.TokenBy)
			for i, t := range op.Terms {
				if i > 0 {
					p.t(parser.TokenComma)
				}
				p.sortTerm(t)
			}
		case *parser.TakeOperator:
			p.kwAt(op.Keyword, "take")
			p.expr(op.RowCount)
		case *parser.TopOperator:
			p.kwAt(op.Keyword, "top")
			p.expr(op.RowCount)
			p.t(parser.TokenBy)
			p.sortTerm(op.Col)
		case *parser.ProjectOperator:
			p.kwAt(op.Keyword, "project")
			for i, c := range op.Cols {
				if i > 0 {
					p.t(parser.TokenComma)
				}
				p.ident(c.Name)
				if c.X != nil {
					p.t(parser.TokenAssign)
					p.expr(c.X)
				}
			}
		case *parser.ExtendOperator:
			p.kwAt(op.Keyword, "extend")
			for i, c := range op.Cols {
				if i > 0 {
					p.t(parser.TokenComma)
				}
				if c.Name != nil {
					p.ident(c.Name)
					p.t(parser.TokenAssign)
				}
				p.expr(c.X)
			}
		case *parser.SummarizeOperator:
			p.kwAt(op.Keyword, "summarize")
			for i, c := range op.Cols {
				if i > 0 {
					p.t(parser.TokenComma)
				}
				if c.Name != nil {
					p.ident(c.Name)
					p.t(parser.TokenAssign)
				}
				p.expr(c.X)
			}
			if op.By.IsValid() {
				p.out = append(p.out, TK{K: parser.TokenBy, Tag: "summarize-by"})
				for i, c := range op.GroupBy {
					if i > 0 {
						p.t(parser.TokenComma)
					}
					if c.Name != nil {
						p.ident(c.Name)
						p.t(parser.TokenAssign)
					}
					p.expr(c.X)
				}
			}
		case *parser.JoinOperator:
			p.kwAt(op.Keyword, "join")
			if op.Flavor != nil {
				p.word("kind")
				p.t(parser.TokenAssign)
				p.ident(op.Flavor)
			}
			p.t(parser.TokenLParen)
			p.tab(op.Right)
			p.t(parser.TokenRParen)
			p.word("on")
			for i, c := range op.Conditions {
				if i > 0 {
					p.t(parser.TokenComma)
				}
				p.expr(c)
			}
		case *parser.AsOperator:
			p.kwAt(op.Keyword, "as")
			p.ident(op.Name)
		case *parser.RenderOperator:
			p.kwAt(op.Keyword, "render")
			p.ident(op.ChartType)
			if op.With.IsValid() {
				p.word("with")
				p.t(parser.TokenLParen)
				for i, pr := range op.Props {
					if i > 0 {
						p.t(parser.TokenComma)
					}
					p.ident(pr.Name)
					p.t(parser.TokenAssign)
					p.expr(pr.Value)
				}
				p.t(parser.TokenRParen)
			}
		default:
			p.fail(fmt.Sprintf("operator %T", op))
		}
	}
}

func (p *reprinter) sortTerm(t *parser.SortTerm) {
	if t == nil {
		p.fail("nil sort term")
		return
	}
	p.expr(t.X)
	if t.AscDescSpan.IsValid() {
		if t.Asc {
			p.word("asc")
		} else {
			p.word("desc")
		}
	}
	if t.NullsSpan.IsValid() {
		p.word("nulls")
		if t.NullsFirst {
			p.word("first")
		} else {
			p.word("last")
		}
	}
}

func (p *reprinter) expr(x parser.Expr) {
	switch x := x.(type) {
	case *parser.QualifiedIdent:
		if x == nil {
			p.fail("nil qualified identifier")
			return
		}
		for i, part := range x.Parts {
			if i > 0 {
				p.t(parser.TokenDot)
			}
			p.ident(part)
		}
	case *parser.BasicLit:
		p.out = append(p.out, TK{K: x.Kind, V: x.Value})
	case *parser.UnaryExpr:
		p.t(x.Op)
		p.expr(x.X)
	case *parser.BinaryExpr:
		p.expr(x.X)
		p.t(x.Op)
		p.expr(x.Y)
	case *parser.InExpr:
		p.expr(x.X)
		p.t(parser.TokenIn)
		p.t(parser.TokenLParen)
		for i, v := range x.Vals {
			if i > 0 {
				p.t(parser.TokenComma)
			}
			p.expr(v)
		}
		p.t(parser.TokenRParen)
	case *parser.ParenExpr:
		p.t(parser.TokenLParen)
		p.expr(x.X)
		p.t(parser.TokenRParen)
	case *parser.CallExpr:
		p.ident(x.Func)
		p.t(parser.TokenLParen)
		for i, v := range x.Args {
			if i > 0 {
				p.t(parser.TokenComma)
			}
			p.expr(v)
		}
		p.out = append(p.out, TK{K: parser.TokenRParen, Tag: "call)"})
	case *parser.IndexExpr:
		p.expr(x.X)
		p.t(parser.TokenLBracket)
		p.expr(x.Index)
		p.t(parser.TokenRBracket)
	case nil:
		p.fail("nil expression")
	default:
		p.fail(fmt.Sprintf("expression %T", x))
	}
}
