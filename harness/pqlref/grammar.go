package pqlref

// FlatExpr is an operand/operator sequence u0 o1 u1 … on un. An operator
// "in" consumes no operand from Operands: its list is InList.
type FlatExpr struct {
	Operands []*E
	Ops      []string
	InList   []*E
}

// ShuntingYard builds the tree the documented grammar prescribes for a flat
// sequence: operators group by precedence (or < and < comparisons/in < + - <
// * / %), left to right among equals; `in (list)` reduces everything at
// comparison level or tighter to its left and is then a finished operand.
// (Deliberately a different algorithm from the implementation's precedence
// climbing.)
func ShuntingYard(f FlatExpr) *E {
	vals := []*E{f.Operands[0]}
	var ops []string
	reduce := func() {
		op := ops[len(ops)-1]
		ops = ops[:len(ops)-1]
		y := vals[len(vals)-1]
		x := vals[len(vals)-2]
		vals = vals[:len(vals)-2]
		vals = append(vals, Bin(op, x, y))
	}
	oi := 1
	for _, op := range f.Ops {
		for len(ops) > 0 && Prec(ops[len(ops)-1]) >= Prec(op) {
			reduce()
		}
		if op == "in" {
			x := vals[len(vals)-1]
			list := make([]*E, len(f.InList))
			for i, v := range f.InList {
				list[i] = Clone(v)
			}
			vals[len(vals)-1] = In(x, list...)
			continue
		}
		ops = append(ops, op)
		vals = append(vals, f.Operands[oi])
		oi++
	}
	for len(ops) > 0 {
		reduce()
	}
	return vals[0]
}
