package pqlref

import (
	"fmt"
	"reflect"
	"strings"

	"github.com/runreveal/pql/parser"
)

var spanType = reflect.TypeOf(parser.Span{})

// Dump renders any parser value (statement lists, nodes) as text by
// reflection over exported fields. Valid spans are printed relative to off;
// with spans == false they are omitted altogether (structure only).
func Dump(v any, off int, spans bool) string {
	var sb strings.Builder
	dump(&sb, reflect.ValueOf(v), off, spans)
	return sb.String()
}

func dump(sb *strings.Builder, v reflect.Value, off int, spans bool) {
	if !v.IsValid() {
		sb.WriteString("nil")
		return
	}
	switch v.Kind() {
	case reflect.Interface, reflect.Ptr:
		if v.IsNil() {
			sb.WriteString("nil")
			return
		}
		if v.Kind() == reflect.Ptr {
			sb.WriteString("&")
		}
		dump(sb, v.Elem(), off, spans)
	case reflect.Struct:
		if v.Type() == spanType {
			sp := v.Interface().(parser.Span)
			if !spans {
				if sp.IsValid() {
					sb.WriteString("@")
				} else {
					sb.WriteString("@-")
				}
				return
			}
			if sp.IsValid() {
				fmt.Fprintf(sb, "[%d,%d)", sp.Start-off, sp.End-off)
			} else {
				fmt.Fprintf(sb, "[invalid %d,%d]", sp.Start, sp.End)
			}
			return
		}
		sb.WriteString(v.Type().Name())
		sb.WriteString("{")
		for i := 0; i < v.NumField(); i++ {
			if !v.Type().Field(i).IsExported() {
				continue
			}
			if i > 0 {
				sb.WriteString(" ")
			}
			sb.WriteString(v.Type().Field(i).Name)
			sb.WriteString(":")
			dump(sb, v.Field(i), off, spans)
		}
		sb.WriteString("}")
	case reflect.Slice:
		if v.IsNil() {
			sb.WriteString("[]")
			return
		}
		sb.WriteString("[")
		for i := 0; i < v.Len(); i++ {
			if i > 0 {
				sb.WriteString(", ")
			}
			dump(sb, v.Index(i), off, spans)
		}
		sb.WriteString("]")
	case reflect.String:
		fmt.Fprintf(sb, "%q", v.String())
	default:
		fmt.Fprintf(sb, "%v", v.Interface())
	}
}
