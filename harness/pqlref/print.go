package pqlref

import (
	"math/rand"
	"strings"

	"github.com/runreveal/pql/parser"
)

// PTok is a token as written by the printer.
type PTok struct {
	Kind       parser.TokenKind
	Text       string
	Start, End int
	// Value expected from the lexer for identifiers, quoted identifiers and strings.
	Value string
}

// Printed is the result of printing a program: its text, the tokens in
// order with their byte ranges, and the parser tree the grammar prescribes,
// including every span.
type Printed struct {
	Src  string
	Toks []PTok
	AST  []parser.Statement
}

// Layout chooses what goes between tokens.
type Layout struct {
	// Mode: 0 one space between all tokens; 1 tight (no space where tokens
	// cannot merge); 2 random spaces/tabs/newlines/comments.
	Mode int
	Rng  *rand.Rand
	// Synonyms: pick keyword synonyms at random (Mode 2 does it anyway).
	Synonyms bool
}

type printer struct {
	sb   strings.Builder
	toks []PTok
	lay  Layout
	prev string // text of previous token
}

var gapChoices = []string{" ", "  ", "\t", "\n", " \n  ", "\r\n", " // c\n", "//\n", "\n// x ; | ) \"\n\t", "\u00a0", " \t ", "\u2003", "\v\f"}

func (p *printer) gap(next string) string {
	g := p.gap0(next)
	if p.prev != "" && g != " " && !sepOK(p.prev, g, next) {
		// the chosen gap would merge with a neighbour (e.g. "/" followed by a
		// "//" comment): fall back to a plain space
		return " "
	}
	return g
}

// sepOK reports whether a+gap+b still scans as exactly the lexemes a and b.
func sepOK(a, gap, b string) bool {
	t := Tokens(a + gap + b)
	return len(t) == 2 && t[0].Start == 0 && t[0].End == len(a) && t[1].Start == len(a)+len(gap) && t[1].End == len(a)+len(gap)+len(b)
}

func (p *printer) gap0(next string) string {
	if p.prev == "" {
		switch p.lay.Mode {
		case 2:
			if p.lay.Rng.Intn(4) == 0 {
				return gapChoices[p.lay.Rng.Intn(len(gapChoices))]
			}
		}
		return ""
	}
	switch p.lay.Mode {
	case 0:
		return " "
	case 1:
		return ""
	default:
		if p.lay.Rng.Intn(3) == 0 {
			return ""
		}
		if p.lay.Rng.Intn(2) == 0 {
			return " "
		}
		return gapChoices[p.lay.Rng.Intn(len(gapChoices))]
	}
}

// CanAbut reports whether writing b directly after a still yields the two
// lexemes a and b (decided by the reference tokenizer).
func CanAbut(a, b string) bool {
	t := Tokens(a + b)
	return len(t) == 2 && t[0].Start == 0 && t[0].End == len(a) && t[1].Start == len(a) && t[1].End == len(a)+len(b)
}

func (p *printer) tok(kind parser.TokenKind, text, value string) parser.Span {
	p.sb.WriteString(p.gap(text))
	start := p.sb.Len()
	p.sb.WriteString(text)
	end := p.sb.Len()
	p.toks = append(p.toks, PTok{Kind: kind, Text: text, Start: start, End: end, Value: value})
	p.prev = text
	return parser.Span{Start: start, End: end}
}

func (p *printer) kw(word string) parser.Span {
	k := parser.TokenIdentifier
	v := word
	if kk, ok := refKeywords[word]; ok {
		k, v = kk, ""
	}
	return p.tok(k, word, v)
}

func (p *printer) sym(kind parser.TokenKind, text string) parser.Span { return p.tok(kind, text, "") }

// IdentText spells an identifier in source form.
func IdentText(id Ident) string {
	if id.Quoted {
		return "`" + strings.ReplaceAll(id.Name, "`", "``") + "`"
	}
	return id.Name
}

func (p *printer) ident(id Ident) *parser.Ident {
	k := parser.TokenIdentifier
	if id.Quoted {
		k = parser.TokenQuotedIdentifier
	}
	sp := p.tok(k, IdentText(id), id.Name)
	return &parser.Ident{Name: id.Name, NameSpan: sp, Quoted: id.Quoted}
}

func nullSpan() parser.Span { return parser.Span{Start: -1, End: -1} }

func (p *printer) expr(e *E) parser.Expr {
	switch e.K {
	case "name":
		q := &parser.QualifiedIdent{}
		for i, part := range e.Parts {
			if i > 0 {
				p.sym(parser.TokenDot, ".")
			}
			q.Parts = append(q.Parts, p.ident(part))
		}
		return q
	case "num":
		sp := p.tok(parser.TokenNumber, e.Lit, "")
		v := e.Lit
		if t := Tokens(e.Lit); len(t) == 1 && t[0].Num != nil {
			v = t[0].Num.Decimal()
		}
		return &parser.BasicLit{ValueSpan: sp, Kind: parser.TokenNumber, Value: v}
	case "str":
		sp := p.tok(parser.TokenString, e.Lit, e.Val)
		return &parser.BasicLit{ValueSpan: sp, Kind: parser.TokenString, Value: e.Val}
	case "bin":
		x := p.expr(e.Kids[0])
		var sp parser.Span
		if _, isKw := refKeywords[e.Op]; isKw {
			sp = p.kw(e.Op)
		} else {
			sp = p.sym(OpKind(e.Op), e.Op)
		}
		y := p.expr(e.Kids[1])
		return &parser.BinaryExpr{X: x, OpSpan: sp, Op: OpKind(e.Op), Y: y}
	case "un":
		k := parser.TokenMinus
		if e.Op == "+" {
			k = parser.TokenPlus
		}
		sp := p.sym(k, e.Op)
		x := p.expr(e.Kids[0])
		return &parser.UnaryExpr{OpSpan: sp, Op: k, X: x}
	case "in":
		x := p.expr(e.Kids[0])
		in := p.kw("in")
		lp := p.sym(parser.TokenLParen, "(")
		var vals []parser.Expr
		for i, v := range e.Kids[1:] {
			if i > 0 {
				p.sym(parser.TokenComma, ",")
			}
			vals = append(vals, p.expr(v))
		}
		rp := p.sym(parser.TokenRParen, ")")
		return &parser.InExpr{X: x, In: in, Lparen: lp, Vals: vals, Rparen: rp}
	case "idx":
		x := p.expr(e.Kids[0])
		lb := p.sym(parser.TokenLBracket, "[")
		i := p.expr(e.Kids[1])
		rb := p.sym(parser.TokenRBracket, "]")
		return &parser.IndexExpr{X: x, Lbrack: lb, Index: i, Rbrack: rb}
	case "call":
		fsp := p.tok(parser.TokenIdentifier, e.Op, e.Op)
		lp := p.sym(parser.TokenLParen, "(")
		var args []parser.Expr
		for i, a := range e.Kids {
			if i > 0 {
				p.sym(parser.TokenComma, ",")
			}
			args = append(args, p.expr(a))
		}
		if e.TrailComma && len(e.Kids) > 0 {
			p.sym(parser.TokenComma, ",")
		}
		rp := p.sym(parser.TokenRParen, ")")
		return &parser.CallExpr{Func: &parser.Ident{Name: e.Op, NameSpan: fsp}, Lparen: lp, Args: args, Rparen: rp}
	case "paren":
		lp := p.sym(parser.TokenLParen, "(")
		x := p.expr(e.Kids[0])
		rp := p.sym(parser.TokenRParen, ")")
		return &parser.ParenExpr{Lparen: lp, X: x, Rparen: rp}
	}
	panic("pqlref: unknown expression kind " + e.K)
}

func (p *printer) sortTerm(t SortTerm) *parser.SortTerm {
	st := &parser.SortTerm{AscDescSpan: nullSpan(), NullsSpan: nullSpan()}
	st.X = p.expr(t.X)
	switch t.Dir {
	case "asc":
		st.AscDescSpan = p.kw("asc")
		st.Asc = true
		st.NullsFirst = true
	case "desc":
		st.AscDescSpan = p.kw("desc")
	}
	switch t.Nulls {
	case "first", "last":
		a := p.kw("nulls")
		b := p.kw(t.Nulls)
		st.NullsSpan = parser.Span{Start: a.Start, End: b.End}
		st.NullsFirst = t.Nulls == "first"
	}
	return st
}

// srcSince returns the text written since byte offset start, trimmed of the
// leading gap: used for implicit column names.
func (p *printer) textOf(firstTok int) string {
	if firstTok >= len(p.toks) {
		return ""
	}
	return p.sb.String()[p.toks[firstTok].Start:p.toks[len(p.toks)-1].End]
}

func (p *printer) synonym(k, kw string) string {
	if kw != "" {
		return kw
	}
	if p.lay.Mode == 2 || p.lay.Synonyms {
		alt := map[string]string{"where": "filter", "sort": "order", "take": "limit"}
		if a, ok := alt[k]; ok && p.lay.Rng != nil && p.lay.Rng.Intn(2) == 0 {
			return a
		}
	}
	return k
}

func (p *printer) pipe(t *Pipe) *parser.TabularExpr {
	x := &parser.TabularExpr{Source: &parser.TableRef{Table: p.ident(t.Table)}}
	for _, op := range t.Ops {
		pipe := p.sym(parser.TokenPipe, "|")
		kwText := p.synonym(op.K, op.Kw)
		switch op.K {
		case "count":
			x.Operators = append(x.Operators, &parser.CountOperator{Pipe: pipe, Keyword: p.kw(kwText)})
		case "where":
			kw := p.kw(kwText)
			x.Operators = append(x.Operators, &parser.WhereOperator{Pipe: pipe, Keyword: kw, Predicate: p.expr(op.X)})
		case "sort":
			kw := p.kw(kwText)
			by := p.kw("by")
			so := &parser.SortOperator{Pipe: pipe, Keyword: parser.Span{Start: kw.Start, End: by.End}}
			for i, t := range op.Terms {
				if i > 0 {
					p.sym(parser.TokenComma, ",")
				}
				so.Terms = append(so.Terms, p.sortTerm(t))
			}
			x.Operators = append(x.Operators, so)
		case "take":
			kw := p.kw(kwText)
			x.Operators = append(x.Operators, &parser.TakeOperator{Pipe: pipe, Keyword: kw, RowCount: p.expr(op.X)})
		case "top":
			kw := p.kw(kwText)
			to := &parser.TopOperator{Pipe: pipe, Keyword: kw}
			to.RowCount = p.expr(op.X)
			to.By = p.kw("by")
			to.Col = p.sortTerm(op.Terms[0])
			x.Operators = append(x.Operators, to)
		case "project":
			po := &parser.ProjectOperator{Pipe: pipe, Keyword: p.kw(kwText)}
			for i, c := range op.Cols {
				if i > 0 {
					p.sym(parser.TokenComma, ",")
				}
				pc := &parser.ProjectColumn{Name: p.ident(*c.Name), Assign: nullSpan()}
				if c.X != nil {
					pc.Assign = p.sym(parser.TokenAssign, "=")
					pc.X = p.expr(c.X)
				}
				po.Cols = append(po.Cols, pc)
			}
			x.Operators = append(x.Operators, po)
		case "extend":
			eo := &parser.ExtendOperator{Pipe: pipe, Keyword: p.kw(kwText)}
			for i := range op.Cols {
				c := &op.Cols[i]
				if i > 0 {
					p.sym(parser.TokenComma, ",")
				}
				ec := &parser.ExtendColumn{Assign: nullSpan()}
				if c.Name != nil {
					ec.Name = p.ident(*c.Name)
					ec.Assign = p.sym(parser.TokenAssign, "=")
				}
				first := len(p.toks)
				ec.X = p.expr(c.X)
				if c.Name == nil {
					c.Implicit = p.textOf(first)
				}
				eo.Cols = append(eo.Cols, ec)
			}
			x.Operators = append(x.Operators, eo)
		case "summarize":
			so := &parser.SummarizeOperator{Pipe: pipe, Keyword: p.kw(kwText), By: nullSpan()}
			scol := func(c *Col) *parser.SummarizeColumn {
				sc := &parser.SummarizeColumn{Assign: nullSpan()}
				if c.Name != nil {
					sc.Name = p.ident(*c.Name)
					sc.Assign = p.sym(parser.TokenAssign, "=")
				}
				first := len(p.toks)
				sc.X = p.expr(c.X)
				if c.Name == nil {
					c.Implicit = p.textOf(first)
				}
				return sc
			}
			for i := range op.Cols {
				if i > 0 {
					p.sym(parser.TokenComma, ",")
				}
				so.Cols = append(so.Cols, scol(&op.Cols[i]))
			}
			if op.HasBy {
				if op.CommaBy && len(op.Cols) > 0 {
					p.sym(parser.TokenComma, ",")
				}
				so.By = p.kw("by")
				for i := range op.By {
					if i > 0 {
						p.sym(parser.TokenComma, ",")
					}
					so.GroupBy = append(so.GroupBy, scol(&op.By[i]))
				}
			}
			x.Operators = append(x.Operators, so)
		case "join":
			jo := &parser.JoinOperator{Pipe: pipe, Keyword: p.kw(kwText), Kind: nullSpan(), KindAssign: nullSpan()}
			if op.Kind != "" {
				jo.Kind = p.kw("kind")
				jo.KindAssign = p.sym(parser.TokenAssign, "=")
				sp := p.tok(parser.TokenIdentifier, op.Kind, op.Kind)
				jo.Flavor = &parser.Ident{Name: op.Kind, NameSpan: sp}
			}
			jo.Lparen = p.sym(parser.TokenLParen, "(")
			jo.Right = p.pipe(op.Right)
			jo.Rparen = p.sym(parser.TokenRParen, ")")
			jo.On = p.kw("on")
			for i, c := range op.Conds {
				if i > 0 {
					p.sym(parser.TokenComma, ",")
				}
				jo.Conditions = append(jo.Conditions, p.expr(c))
			}
			x.Operators = append(x.Operators, jo)
		case "as":
			kw := p.kw(kwText)
			x.Operators = append(x.Operators, &parser.AsOperator{Pipe: pipe, Keyword: kw, Name: p.ident(op.Name)})
		case "render":
			ro := &parser.RenderOperator{Pipe: pipe, Keyword: p.kw(kwText), With: nullSpan(), Lparen: nullSpan(), Rparen: nullSpan()}
			ro.ChartType = p.ident(op.Name)
			if op.With {
				ro.With = p.kw("with")
				ro.Lparen = p.sym(parser.TokenLParen, "(")
				for i, pr := range op.Props {
					if i > 0 {
						p.sym(parser.TokenComma, ",")
					}
					rp := &parser.RenderProperty{}
					rp.Name = p.ident(pr.Name)
					rp.Assign = p.sym(parser.TokenAssign, "=")
					rp.Value = p.expr(pr.Val)
					ro.Props = append(ro.Props, rp)
				}
				ro.Rparen = p.sym(parser.TokenRParen, ")")
			}
			x.Operators = append(x.Operators, ro)
		default:
			panic("pqlref: unknown operator " + op.K)
		}
	}
	return x
}

func (p *printer) stmt(s *Stmt) parser.Statement {
	if s.LetName != nil {
		ls := &parser.LetStatement{}
		ls.Keyword = p.kw("let")
		ls.Name = p.ident(*s.LetName)
		ls.Assign = p.sym(parser.TokenAssign, "=")
		ls.X = p.expr(s.LetX)
		return ls
	}
	return p.pipe(s.Pipe)
}

// Print renders a program. The trees are printed exactly as given (paren
// nodes included, none added): use Parenthesize first when the tree is a
// meaning rather than a syntax tree.
func Print(prog *Program, lay Layout) *Printed {
	p := &printer{lay: lay}
	out := &Printed{}
	empties := func(i int) {
		if i < len(prog.Empties) {
			for k := 0; k < prog.Empties[i]; k++ {
				p.sym(parser.TokenSemi, ";")
			}
		}
	}
	for i, s := range prog.Stmts {
		empties(i)
		if i > 0 {
			p.sym(parser.TokenSemi, ";")
		}
		out.AST = append(out.AST, p.stmt(s))
	}
	if prog.TrailSemi {
		p.sym(parser.TokenSemi, ";")
	}
	empties(len(prog.Stmts))
	if lay.Mode == 2 && lay.Rng.Intn(3) == 0 {
		p.sb.WriteString([]string{"\n", " ", " // end", "\n\n"}[lay.Rng.Intn(4)])
	}
	out.Src = p.sb.String()
	out.Toks = p.toks
	return out
}

// PrintExpr renders a single expression in canonical layout (one space
// between tokens), e.g. for messages and keys.
func PrintExpr(e *E) string {
	p := &printer{lay: Layout{Mode: 0}}
	p.expr(e)
	return p.sb.String()
}

// PrintExprTight renders a single expression without optional spaces.
func PrintExprTight(e *E) string {
	p := &printer{lay: Layout{Mode: 1}}
	p.expr(e)
	return p.sb.String()
}

// Query wraps an expression into "T | where <e>" style programs.
func Query(table string, ops ...*Op) *Program {
	return &Program{Stmts: []*Stmt{{Pipe: &Pipe{Table: Ident{Name: table}, Ops: ops}}}}
}
