package pqlref

import (
	"reflect"

	"github.com/runreveal/pql/parser"
)

var (
	nodeIface = reflect.TypeOf((*parser.Node)(nil)).Elem()
	exprIface = reflect.TypeOf((*parser.Expr)(nil)).Elem()
	identType = reflect.TypeOf((*parser.Ident)(nil))
)

// RNode is a node found by reflection with its parent link.
type RNode struct {
	Node   parser.Node
	Ptr    uintptr
	Parent *RNode
	Field  string // field path from the parent
	// Required: identifier or expression that the traversal contract says
	// must be visited (function names and join kinds excepted).
	Required bool
	TypeName string
}

// Reach enumerates, by reflection over exported fields, every non-nil node
// (pointer implementing parser.Node) below and including root, in pre-order.
func Reach(root parser.Node) []*RNode {
	var out []*RNode
	var walk func(v reflect.Value, parent *RNode, field string, excepted bool)
	walk = func(v reflect.Value, parent *RNode, field string, excepted bool) {
		switch v.Kind() {
		case reflect.Interface:
			if !v.IsNil() {
				walk(v.Elem(), parent, field, excepted)
			}
		case reflect.Ptr:
			if v.IsNil() {
				return
			}
			cur := parent
			if v.Type().Implements(nodeIface) {
				n := &RNode{Node: v.Interface().(parser.Node), Ptr: v.Pointer(), Parent: parent, Field: field, TypeName: v.Elem().Type().Name()}
				n.Required = !excepted && (v.Type() == identType || v.Type().Implements(exprIface))
				out = append(out, n)
				cur = n
			}
			e := v.Elem()
			if e.Kind() == reflect.Struct {
				for i := 0; i < e.NumField(); i++ {
					f := e.Type().Field(i)
					if !f.IsExported() {
						continue
					}
					ex := (e.Type().Name() == "CallExpr" && f.Name == "Func") || (e.Type().Name() == "JoinOperator" && f.Name == "Flavor")
					walk(e.Field(i), cur, f.Name, ex)
				}
			}
		case reflect.Slice:
			for i := 0; i < v.Len(); i++ {
				walk(v.Index(i), parent, field, excepted)
			}
		case reflect.Struct:
			for i := 0; i < v.NumField(); i++ {
				if v.Type().Field(i).IsExported() {
					walk(v.Field(i), parent, field+"."+v.Type().Field(i).Name, excepted)
				}
			}
		}
	}
	walk(reflect.ValueOf(root), nil, "", false)
	return out
}

// IsNilNode reports whether n is nil or a typed nil pointer.
func IsNilNode(n parser.Node) bool {
	if n == nil {
		return true
	}
	v := reflect.ValueOf(n)
	return v.Kind() == reflect.Ptr && v.IsNil()
}

// NodePtr returns the pointer identity of a node.
func NodePtr(n parser.Node) uintptr {
	v := reflect.ValueOf(n)
	if v.Kind() == reflect.Ptr {
		return v.Pointer()
	}
	return 0
}

// IsDescendant reports whether a is a proper descendant of b.
func IsDescendant(a, b *RNode) bool {
	for p := a.Parent; p != nil; p = p.Parent {
		if p == b {
			return true
		}
	}
	return false
}

// SpanInfo is one span field found by reflection.
type SpanInfo struct {
	Path string
	Span parser.Span
}

// Spans lists every Span field reachable from v with its field path.
func Spans(v any) []SpanInfo {
	var out []SpanInfo
	var walk func(v reflect.Value, path string)
	walk = func(v reflect.Value, path string) {
		switch v.Kind() {
		case reflect.Interface, reflect.Ptr:
			if !v.IsNil() {
				if v.Kind() == reflect.Ptr && v.Elem().Kind() == reflect.Struct {
					walk(v.Elem(), path+"/"+v.Elem().Type().Name())
				} else {
					walk(v.Elem(), path)
				}
			}
		case reflect.Struct:
			if v.Type() == spanType {
				out = append(out, SpanInfo{path, v.Interface().(parser.Span)})
				return
			}
			for i := 0; i < v.NumField(); i++ {
				if v.Type().Field(i).IsExported() {
					walk(v.Field(i), path+"."+v.Type().Field(i).Name)
				}
			}
		case reflect.Slice:
			for i := 0; i < v.Len(); i++ {
				walk(v.Index(i), path)
			}
		}
	}
	walk(reflect.ValueOf(v), "")
	return out
}

// Extent returns the union of all valid spans stored below v.
func Extent(v any) parser.Span {
	u := parser.Span{Start: -1, End: -1}
	for _, s := range Spans(v) {
		if !s.Span.IsValid() {
			continue
		}
		if !u.IsValid() {
			u = s.Span
			continue
		}
		if s.Span.Start < u.Start {
			u.Start = s.Span.Start
		}
		if s.Span.End > u.End {
			u.End = s.Span.End
		}
	}
	return u
}

// LineCol is an independent line/column function: 1-based, columns count
// code points, a tab advances to the next multiple of eight plus one.
func LineCol(src string, pos int) (line, col int) {
	line, col = 1, 1
	for _, c := range src[:pos] {
		switch {
		case c == '\n':
			line++
			col = 1
		case c == '\t':
			col = ((col-1)/8+1)*8 + 1
		default:
			col++
		}
	}
	return
}
