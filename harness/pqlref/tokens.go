// Package pqlref holds the executable reference models of the PQL language
// that the monitors compare the real implementation against. Nothing in this
// package calls into github.com/runreveal/pql except for its exported data
// types (token kinds, spans, AST structs), which are the observation
// vocabulary.
package pqlref

import (
	"math/big"
	"strings"
	"unicode"
	"unicode/utf8"

	"github.com/runreveal/pql/parser"
)

// RTok is a token as the reference tokenizer sees it.
type RTok struct {
	Kind       parser.TokenKind
	Start, End int
	Val        string  // identifiers, quoted identifiers, strings
	Num        *Number // numbers: exact value of the lexeme
}

func isAl(c byte) bool  { return c >= 'a' && c <= 'z' || c >= 'A' && c <= 'Z' }
func isDg(c byte) bool  { return c >= '0' && c <= '9' }
func isHex(c byte) bool { return isDg(c) || c >= 'a' && c <= 'f' || c >= 'A' && c <= 'F' }

var refKeywords = map[string]parser.TokenKind{"and": parser.TokenAnd, "or": parser.TokenOr, "in": parser.TokenIn, "by": parser.TokenBy}

var twoCharOps = map[string]parser.TokenKind{"==": parser.TokenEq, "=~": parser.TokenCaseInsensitiveEq, "!=": parser.TokenNE,
	"!~": parser.TokenCaseInsensitiveNE, "<=": parser.TokenLE, ">=": parser.TokenGE}

var oneCharOps = map[byte]parser.TokenKind{'|': parser.TokenPipe, '.': parser.TokenDot, ',': parser.TokenComma, '+': parser.TokenPlus,
	'-': parser.TokenMinus, '*': parser.TokenStar, '/': parser.TokenSlash, '%': parser.TokenMod, '=': parser.TokenAssign,
	'<': parser.TokenLT, '>': parser.TokenGT, '(': parser.TokenLParen, ')': parser.TokenRParen, '[': parser.TokenLBracket,
	']': parser.TokenRBracket, ';': parser.TokenSemi}

// Number is the exact value of a numeric lexeme: Digits × 10^Exp, with
// Digits free of leading and trailing zeros ("0" for zero, Exp 0).
type Number struct {
	Digits string
	Exp    *big.Int
}

func (a *Number) Equal(b *Number) bool {
	return a != nil && b != nil && a.Digits == b.Digits && a.Exp.Cmp(b.Exp) == 0
}

func (a *Number) String() string { return a.Digits + "e" + a.Exp.String() }

// Rat converts to a rational when the exponent is moderate.
func (a *Number) Rat() (*big.Rat, bool) {
	if !a.Exp.IsInt64() || a.Exp.Int64() > 4000 || a.Exp.Int64() < -4000 {
		return nil, false
	}
	d, _ := new(big.Int).SetString(a.Digits, 10)
	e := a.Exp.Int64()
	p := new(big.Int).Exp(big.NewInt(10), big.NewInt(abs64(e)), nil)
	if e >= 0 {
		return new(big.Rat).SetInt(d.Mul(d, p)), true
	}
	return new(big.Rat).SetFrac(d, p), true
}

func abs64(x int64) int64 {
	if x < 0 {
		return -x
	}
	return x
}

// NumberFromInt makes a Number from a non-negative integer.
func NumberFromInt(v *big.Int) *Number {
	n, _ := NumberValue(v.String())
	return n
}

// NumberValue reads a decimal PQL number spelling (digits[.digits*][exp] or
// .digits+[exp]) exactly. ok is false if s is not such a spelling.
func NumberValue(s string) (*Number, bool) {
	i := 0
	intStart := i
	for i < len(s) && isDg(s[i]) {
		i++
	}
	digits := s[intStart:i]
	frac := ""
	if i < len(s) && s[i] == '.' {
		i++
		fs := i
		for i < len(s) && isDg(s[i]) {
			i++
		}
		frac = s[fs:i]
	}
	if digits == "" && frac == "" {
		return nil, false
	}
	exp := new(big.Int)
	if i < len(s) && (s[i] == 'e' || s[i] == 'E') {
		i++
		es := i
		if i < len(s) && (s[i] == '+' || s[i] == '-') {
			i++
		}
		ds := i
		for i < len(s) && isDg(s[i]) {
			i++
		}
		if ds == i {
			return nil, false
		}
		if _, ok := exp.SetString(strings.TrimPrefix(s[es:i], "+"), 10); !ok {
			return nil, false
		}
	}
	if i != len(s) {
		return nil, false
	}
	all := digits + frac
	exp.Sub(exp, big.NewInt(int64(len(frac))))
	all = strings.TrimLeft(all, "0")
	if all == "" {
		return &Number{Digits: "0", Exp: new(big.Int)}, true
	}
	t := strings.TrimRight(all, "0")
	exp.Add(exp, big.NewInt(int64(len(all)-len(t))))
	return &Number{Digits: t, Exp: exp}, true
}

// Tokens is the reference tokenizer: longest match over the lexical
// definitions of the language (see C09). It never looks at the
// implementation.
func Tokens(s string) []RTok {
	var out []RTok
	i := 0
	n := len(s)
	for i < n {
		r, w := utf8.DecodeRuneInString(s[i:])
		c := s[i]
		switch {
		case unicode.IsSpace(r):
			i += w
		case c == '/' && i+1 < n && s[i+1] == '/':
			for i < n && s[i] != '\n' {
				i++
			}
		case isAl(c) || c == '_' || c == '$':
			j := i + 1
			for j < n && (isAl(s[j]) || isDg(s[j]) || s[j] == '_') {
				j++
			}
			t := RTok{Kind: parser.TokenIdentifier, Start: i, End: j, Val: s[i:j]}
			if k, ok := refKeywords[t.Val]; ok {
				t.Kind, t.Val = k, ""
			}
			out = append(out, t)
			i = j
		case isDg(c) || c == '.' && i+1 < n && isDg(s[i+1]):
			if c == '0' && i+1 < n && (s[i+1] == 'x' || s[i+1] == 'X') {
				j := i + 2
				for j < n && isHex(s[j]) {
					j++
				}
				if j == i+2 {
					out = append(out, RTok{Kind: parser.TokenError, Start: i, End: i + 2})
					i += 2
					continue
				}
				v, _ := new(big.Int).SetString(s[i+2:j], 16)
				if v.BitLen() > 64 {
					out = append(out, RTok{Kind: parser.TokenError, Start: i, End: j})
				} else {
					out = append(out, RTok{Kind: parser.TokenNumber, Start: i, End: j, Num: NumberFromInt(v)})
				}
				i = j
				continue
			}
			j := i
			for j < n && isDg(s[j]) {
				j++
			}
			if j < n && s[j] == '.' {
				j++
				for j < n && isDg(s[j]) {
					j++
				}
			}
			if j < n && (s[j] == 'e' || s[j] == 'E') {
				k := j + 1
				if k < n && (s[k] == '+' || s[k] == '-') {
					k++
				}
				if k < n && isDg(s[k]) {
					for k < n && isDg(s[k]) {
						k++
					}
					j = k
				}
			}
			v, _ := NumberValue(s[i:j])
			out = append(out, RTok{Kind: parser.TokenNumber, Start: i, End: j, Num: v})
			i = j
		case c == '"' || c == '\'':
			j := i + 1
			var b strings.Builder
			done := false
			for j < n {
				d := s[j]
				if d == c {
					out = append(out, RTok{Kind: parser.TokenString, Start: i, End: j + 1, Val: b.String()})
					i = j + 1
					done = true
					break
				}
				if d == '\n' {
					break
				}
				if d == '\\' {
					if j+1 >= n {
						j = n
						break
					}
					if s[j+1] == '\n' {
						j++
						break
					}
					_, w2 := utf8.DecodeRuneInString(s[j+1:])
					switch s[j+1] {
					case 'n':
						b.WriteByte('\n')
					case 't':
						b.WriteByte('\t')
					default:
						b.WriteString(s[j+1 : j+1+w2])
					}
					j += 1 + w2
					continue
				}
				_, w2 := utf8.DecodeRuneInString(s[j:])
				b.WriteString(s[j : j+w2])
				j += w2
			}
			if !done {
				out = append(out, RTok{Kind: parser.TokenError, Start: i, End: j})
				i = j
			}
		case c == '`':
			j := i + 1
			done := false
			for j < n {
				if s[j] == '`' {
					if j+1 < n && s[j+1] == '`' {
						j += 2
						continue
					}
					out = append(out, RTok{Kind: parser.TokenQuotedIdentifier, Start: i, End: j + 1, Val: strings.ReplaceAll(s[i+1:j], "``", "`")})
					i = j + 1
					done = true
					break
				}
				if s[j] == '\n' {
					break
				}
				j++
			}
			if !done {
				out = append(out, RTok{Kind: parser.TokenError, Start: i, End: j})
				i = j
			}
		default:
			if i+1 < n {
				if k, ok := twoCharOps[s[i:i+2]]; ok {
					out = append(out, RTok{Kind: k, Start: i, End: i + 2})
					i += 2
					continue
				}
			}
			if k, ok := oneCharOps[c]; ok {
				out = append(out, RTok{Kind: k, Start: i, End: i + 1})
				i++
				continue
			}
			out = append(out, RTok{Kind: parser.TokenError, Start: i, End: i + w})
			i += w
		}
	}
	return out
}

// Decimal gives a decimal spelling of the value.
func (a *Number) Decimal() string {
	if a.Exp.Sign() == 0 {
		return a.Digits
	}
	if a.Exp.IsInt64() && a.Exp.Int64() > 0 && a.Exp.Int64() <= 30 {
		return a.Digits + strings.Repeat("0", int(a.Exp.Int64()))
	}
	return a.Digits + "e" + a.Exp.String()
}
