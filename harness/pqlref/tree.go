package pqlref

import (
	"strings"

	"github.com/runreveal/pql/parser"
)

// The generator-side program model. A tree carries the *meaning* of what was
// generated; the printer turns it into source text (and the expected
// parser tree), the evaluators give it a value.

// Ident is a name as a value (after backtick un-doubling).
type Ident struct {
	Name   string `json:"n"`
	Quoted bool   `json:"q,omitempty"`
}

// E is an expression tree.
type E struct {
	K     string  `json:"k"`            // name num str bin un in idx call paren
	Op    string  `json:"op,omitempty"` // bin: operator spelling; un: + or -; call: function name
	Parts []Ident `json:"parts,omitempty"`
	Lit   string  `json:"lit,omitempty"` // num/str: the lexeme as written
	Val   string  `json:"val,omitempty"` // str: decoded value
	Kids  []*E    `json:"kids,omitempty"`
	// TrailComma: call with a trailing comma after the last argument.
	TrailComma bool `json:"tc,omitempty"`
}

// SortTerm is one sort key.
type SortTerm struct {
	X     *E     `json:"x"`
	Dir   string `json:"dir,omitempty"`   // "", asc, desc
	Nulls string `json:"nulls,omitempty"` // "", first, last
}

// Col is a column of project/extend/summarize.
type Col struct {
	Name *Ident `json:"name,omitempty"`
	X    *E     `json:"x,omitempty"`
	// Implicit is filled in by the printer for unnamed columns: the source
	// text between the first and last token of X.
	Implicit string `json:"implicit,omitempty"`
}

// Prop is a render property.
type Prop struct {
	Name Ident `json:"name"`
	Val  *E    `json:"val"`
}

// Op is a tabular operator.
type Op struct {
	K     string     `json:"k"`            // count where sort take top project extend summarize join as render
	Kw    string     `json:"kw,omitempty"` // keyword spelling used (synonyms)
	X     *E         `json:"x,omitempty"`  // where: predicate; take/top: row count
	Terms []SortTerm `json:"terms,omitempty"`
	Cols  []Col      `json:"cols,omitempty"`
	By    []Col      `json:"by,omitempty"`
	HasBy bool       `json:"hasby,omitempty"`
	// CommaBy: a comma directly before `by` (allowed to be absent from the tree).
	CommaBy bool   `json:"commaby,omitempty"`
	Kind    string `json:"kind,omitempty"` // join flavor, "" = not written
	Right   *Pipe  `json:"right,omitempty"`
	Conds   []*E   `json:"conds,omitempty"`
	Name    Ident  `json:"name,omitempty"` // as: name; render: chart type
	With    bool   `json:"with,omitempty"`
	Props   []Prop `json:"props,omitempty"`
}

// Pipe is a tabular expression.
type Pipe struct {
	Table Ident `json:"table"`
	Ops   []*Op `json:"ops,omitempty"`
}

// Stmt is a let statement or a tabular statement.
type Stmt struct {
	LetName *Ident `json:"let,omitempty"`
	LetX    *E     `json:"letx,omitempty"`
	Pipe    *Pipe  `json:"pipe,omitempty"`
}

// Program is a statement list. Empties[i] is the number of empty statements
// (bare semicolons) written before statement i; Empties[len(Stmts)] after the
// last one. TrailSemi: the last statement is followed by a semicolon.
type Program struct {
	Stmts     []*Stmt `json:"stmts"`
	Empties   []int   `json:"empties,omitempty"`
	TrailSemi bool    `json:"trailsemi,omitempty"`
}

// ---- constructors -------------------------------------------------------

func Name(parts ...string) *E {
	e := &E{K: "name"}
	for _, p := range parts {
		e.Parts = append(e.Parts, Ident{Name: p})
	}
	return e
}
func QName(name string) *E { return &E{K: "name", Parts: []Ident{{Name: name, Quoted: true}}} }
func Num(lit string) *E    { return &E{K: "num", Lit: lit} }
func Str(lit, val string) *E {
	return &E{K: "str", Lit: lit, Val: val}
}
func Bin(op string, x, y *E) *E { return &E{K: "bin", Op: op, Kids: []*E{x, y}} }
func Un(op string, x *E) *E     { return &E{K: "un", Op: op, Kids: []*E{x}} }
func In(x *E, vals ...*E) *E    { return &E{K: "in", Kids: append([]*E{x}, vals...)} }
func Idx(x, i *E) *E            { return &E{K: "idx", Kids: []*E{x, i}} }
func Call(fn string, args ...*E) *E {
	return &E{K: "call", Op: fn, Kids: args}
}
func Paren(x *E) *E { return &E{K: "paren", Kids: []*E{x}} }

// StrLit makes a string literal node from a value, choosing a spelling.
func StrLit(val string, dq bool) *E {
	q := byte('\'')
	if dq {
		q = '"'
	}
	var sb strings.Builder
	sb.WriteByte(q)
	for i := 0; i < len(val); i++ {
		c := val[i]
		switch {
		case c == q || c == '\\':
			sb.WriteByte('\\')
			sb.WriteByte(c)
		case c == '\n':
			sb.WriteString("\\n")
		case c == '\t' && i%2 == 0:
			sb.WriteString("\\t")
		default:
			sb.WriteByte(c)
		}
	}
	sb.WriteByte(q)
	return Str(sb.String(), val)
}

// ---- precedence (the documented grammar) --------------------------------

// BinOps lists the sixteen binary operators (in included).
var BinOps = []string{"or", "and", "==", "!=", "<", "<=", ">", ">=", "=~", "!~", "in", "+", "-", "*", "/", "%"}

// Prec is the binding strength of a binary operator (in included):
// or < and < comparisons/in < + - < * / %.
func Prec(op string) int {
	switch op {
	case "or":
		return 0
	case "and":
		return 1
	case "+", "-":
		return 3
	case "*", "/", "%":
		return 4
	case "==", "!=", "<", "<=", ">", ">=", "=~", "!~", "in":
		return 2
	}
	return -1
}

var opKinds = map[string]parser.TokenKind{
	"or": parser.TokenOr, "and": parser.TokenAnd, "==": parser.TokenEq, "!=": parser.TokenNE, "<": parser.TokenLT, "<=": parser.TokenLE,
	">": parser.TokenGT, ">=": parser.TokenGE, "=~": parser.TokenCaseInsensitiveEq, "!~": parser.TokenCaseInsensitiveNE,
	"+": parser.TokenPlus, "-": parser.TokenMinus, "*": parser.TokenStar, "/": parser.TokenSlash, "%": parser.TokenMod, "in": parser.TokenIn,
}

// OpKind maps an operator spelling to its token kind.
func OpKind(op string) parser.TokenKind { return opKinds[op] }

// level of a node when it appears as an operand: binary operators and `in`
// have their precedence, a sign 5, everything else 9.
func level(e *E) int {
	switch e.K {
	case "bin":
		return Prec(e.Op)
	case "in":
		return 2
	case "un":
		return 5
	}
	return 9
}

func isAtom(e *E) bool {
	switch e.K {
	case "name", "num", "str", "call", "paren":
		return true
	}
	return false
}

// StripParens returns a copy of the tree without paren nodes.
func StripParens(e *E) *E {
	if e == nil {
		return nil
	}
	if e.K == "paren" {
		return StripParens(e.Kids[0])
	}
	c := *e
	c.Kids = nil
	for _, k := range e.Kids {
		c.Kids = append(c.Kids, StripParens(k))
	}
	return &c
}

// Parenthesize returns a copy of e with exactly the paren nodes the grammar
// requires for the text to read back as e (existing paren nodes are kept).
// extra, when non-nil, is asked at every sub-expression whether to add a
// redundant pair.
func Parenthesize(e *E, extra func() bool) *E {
	if e == nil {
		return nil
	}
	c := *e
	c.Kids = make([]*E, len(e.Kids))
	wrap := func(k *E, need bool) *E {
		p := Parenthesize(k, extra)
		if need {
			return Paren(p)
		}
		return p
	}
	switch e.K {
	case "bin":
		p := Prec(e.Op)
		c.Kids[0] = wrap(e.Kids[0], level(e.Kids[0]) < p)
		c.Kids[1] = wrap(e.Kids[1], level(e.Kids[1]) <= p)
	case "in":
		c.Kids[0] = wrap(e.Kids[0], level(e.Kids[0]) < 2)
		for i := 1; i < len(e.Kids); i++ {
			c.Kids[i] = wrap(e.Kids[i], false)
		}
	case "un":
		k := e.Kids[0]
		c.Kids[0] = wrap(k, !(isAtom(k) || k.K == "idx"))
	case "idx":
		c.Kids[0] = wrap(e.Kids[0], !isAtom(e.Kids[0]))
		c.Kids[1] = wrap(e.Kids[1], false)
	default:
		for i, k := range e.Kids {
			c.Kids[i] = wrap(k, false)
		}
	}
	out := &c
	if extra != nil && extra() {
		out = Paren(out)
	}
	return out
}

// Clone deep-copies an expression.
func Clone(e *E) *E {
	if e == nil {
		return nil
	}
	c := *e
	c.Parts = append([]Ident(nil), e.Parts...)
	c.Kids = nil
	for _, k := range e.Kids {
		c.Kids = append(c.Kids, Clone(k))
	}
	return &c
}

// Canon renders an expression as an s-expression (paren nodes shown).
func Canon(e *E) string {
	if e == nil {
		return "nil"
	}
	var sb strings.Builder
	canon(&sb, e)
	return sb.String()
}

func canon(sb *strings.Builder, e *E) {
	switch e.K {
	case "name":
		for i, p := range e.Parts {
			if i > 0 {
				sb.WriteByte('.')
			}
			if p.Quoted {
				sb.WriteString("`" + p.Name + "`")
			} else {
				sb.WriteString(p.Name)
			}
		}
	case "num", "str":
		sb.WriteString(e.Lit)
	default:
		sb.WriteByte('(')
		sb.WriteString(e.K)
		if e.Op != "" {
			sb.WriteByte(' ')
			sb.WriteString(e.Op)
		}
		for _, k := range e.Kids {
			sb.WriteByte(' ')
			canon(sb, k)
		}
		sb.WriteByte(')')
	}
}

// CountOps counts operator nodes (bin, in, un, idx, call) in a tree.
func CountOps(e *E) int {
	if e == nil {
		return 0
	}
	n := 0
	switch e.K {
	case "bin", "in", "un", "idx", "call":
		n = 1
	}
	for _, k := range e.Kids {
		n += CountOps(k)
	}
	return n
}

// Weight counts the operator nodes and tabular operators of a program (used
// by the non-triviality rules).
func (p *Program) Weight() int {
	n := 0
	for _, s := range p.Stmts {
		if s.LetX != nil {
			n += 1 + CountOps(s.LetX)
		}
		if s.Pipe != nil {
			n += s.Pipe.Weight()
		}
	}
	return n
}

func (p *Pipe) Weight() int {
	n := 0
	for _, op := range p.Ops {
		n++
		n += CountOps(op.X)
		for _, t := range op.Terms {
			n += CountOps(t.X)
		}
		for _, c := range op.Cols {
			n += CountOps(c.X)
		}
		for _, c := range op.By {
			n += CountOps(c.X)
		}
		for _, c := range op.Conds {
			n += CountOps(c)
		}
		for _, pr := range op.Props {
			n += CountOps(pr.Val)
		}
		if op.Right != nil {
			n += op.Right.Weight()
		}
	}
	return n
}
