package pqlref

import (
	"strings"

	"verif/harness/val"
)

// Row maps column names (parts joined by "\x1f") to values.
type Row map[string]val.V

// EvalCtx is the context of the PQL reference evaluator.
type EvalCtx struct {
	Row   Row
	Group []Row // nil: the current row alone
	// Bind resolves a bare unquoted single-part name that denotes a let
	// binding or parameter; ok == false means it is a column.
	Bind func(name string) (val.V, bool)
}

func (c *EvalCtx) group() []Row {
	if c.Group != nil {
		return c.Group
	}
	return []Row{c.Row}
}

func colKey(parts []Ident) string {
	k := ""
	for i, p := range parts {
		if i > 0 {
			k += "\x1f"
		}
		k += p.Name
	}
	return k
}

// Eval gives the value of a PQL expression, read with PQL's grouping (the
// tree) and the semantics the language documents:
//
//	==, != never NULL (coalesce(…, FALSE));  =~, !~ compare lower-cased;
//	in, indexing, signs as written;  not/isnull/isnotnull/iff/iif/strcat/
//	tolower/toupper/now/count/countif as documented; any other function by
//	name with its arguments.
func Eval(e *E, c *EvalCtx) val.V {
	switch e.K {
	case "paren":
		return Eval(e.Kids[0], c)
	case "name":
		if len(e.Parts) == 1 && !e.Parts[0].Quoted {
			n := e.Parts[0].Name
			if c.Bind != nil {
				if v, ok := c.Bind(n); ok {
					return v
				}
			}
			switch n {
			case "true":
				return val.TRUE
			case "false":
				return val.FALSE
			case "null":
				return val.NULL
			}
		}
		if v, ok := c.Row[colKey(e.Parts)]; ok {
			return v
		}
		return val.ERR
	case "num":
		v, ok := val.ParseNumber(e.Lit)
		if !ok {
			return val.ERR
		}
		return v
	case "str":
		return val.S(e.Val)
	case "un":
		x := Eval(e.Kids[0], c)
		if e.Op == "-" {
			return val.Neg(x)
		}
		return val.Pos(x)
	case "bin":
		a, b := Eval(e.Kids[0], c), Eval(e.Kids[1], c)
		switch e.Op {
		case "or":
			return val.Or(a, b)
		case "and":
			return val.And(a, b)
		case "==":
			return val.Coalesce(val.Cmp("=", a, b), val.FALSE)
		case "!=":
			return val.Coalesce(val.Cmp("<>", a, b), val.FALSE)
		case "=~":
			return val.Cmp("=", val.Lower(a), val.Lower(b))
		case "!~":
			return val.Cmp("<>", val.Lower(a), val.Lower(b))
		case "<", "<=", ">", ">=":
			return val.Cmp(e.Op, a, b)
		case "+", "-", "*", "/", "%":
			return val.Arith(e.Op, a, b)
		}
		return val.ERR
	case "in":
		x := Eval(e.Kids[0], c)
		var list []val.V
		for _, k := range e.Kids[1:] {
			list = append(list, Eval(k, c))
		}
		return val.In(x, list)
	case "idx":
		return val.Index(Eval(e.Kids[0], c), Eval(e.Kids[1], c))
	case "call":
		return evalCall(e, c)
	}
	return val.ERR
}

func evalCall(e *E, c *EvalCtx) val.V {
	arg := func(i int) val.V { return Eval(e.Kids[i], c) }
	n := len(e.Kids)
	switch e.Op {
	case "not":
		if n == 1 {
			return val.Not(arg(0))
		}
		return val.ERR
	case "isnull":
		if n == 1 {
			return val.IsNull(arg(0))
		}
		return val.ERR
	case "isnotnull":
		if n == 1 {
			return val.IsNotNull(arg(0))
		}
		return val.ERR
	case "iff", "iif":
		if n == 3 {
			return val.Case(val.Coalesce(arg(0), val.FALSE), arg(1), arg(2))
		}
		return val.ERR
	case "strcat":
		if n == 1 {
			// x1 || … || xn with a single element is x1 itself
			return arg(0)
		}
		if n >= 1 {
			var as []val.V
			for i := 0; i < n; i++ {
				as = append(as, arg(i))
			}
			return val.Concat(as...)
		}
		return val.ERR
	case "tolower":
		if n == 1 {
			return val.Lower(arg(0))
		}
		return val.ERR
	case "toupper":
		if n == 1 {
			return val.Upper(arg(0))
		}
		return val.ERR
	case "now":
		if n == 0 {
			return val.NOW
		}
		return val.ERR
	case "count":
		if n == 0 {
			return val.I(int64(len(c.group())))
		}
		return val.ERR
	case "countif":
		if n != 1 {
			return val.ERR
		}
		cnt := int64(0)
		for _, r := range c.group() {
			v := Eval(e.Kids[0], &EvalCtx{Row: r, Bind: c.Bind})
			if v.K == val.Err || (v.K != val.Bool && v.K != val.Null) {
				return val.ERR
			}
			if v.K == val.Bool && v.B {
				cnt++
			}
		}
		return val.I(cnt)
	case "sum", "min", "max", "avg":
		// passed through by name: the engine's aggregate of that name
		if n != 1 {
			return val.ERR
		}
		var vals []val.V
		for _, r := range c.group() {
			vals = append(vals, Eval(e.Kids[0], &EvalCtx{Row: r, Bind: c.Bind}))
		}
		return val.Aggregate(e.Op, vals)
	}
	// any other function is passed through by name: it means whatever the
	// engine's function of that name means, including the aggregates, whose
	// names the engine matches case-insensitively
	if lname := strings.ToLower(e.Op); val.IsAggregate(lname) {
		rows := c.group()
		evalOn := func(r Row) val.V { return Eval(e.Kids[0], &EvalCtx{Row: r, Bind: c.Bind}) }
		switch lname {
		case "count":
			if n == 0 {
				return val.I(int64(len(rows)))
			}
			if n != 1 {
				return val.ERR
			}
			cnt := int64(0)
			for _, r := range rows {
				v := evalOn(r)
				if v.K == val.Err {
					return val.ERR
				}
				if v.K != val.Null {
					cnt++
				}
			}
			return val.I(cnt)
		case "countif":
			if n != 1 {
				return val.ERR
			}
			cnt := int64(0)
			for _, r := range rows {
				v := evalOn(r)
				if v.K == val.Err || (v.K != val.Bool && v.K != val.Null) {
					return val.ERR
				}
				if v.K == val.Bool && v.B {
					cnt++
				}
			}
			return val.I(cnt)
		default:
			if n != 1 {
				return val.ERR
			}
			var vals []val.V
			for _, r := range rows {
				vals = append(vals, evalOn(r))
			}
			return val.Aggregate(lname, vals)
		}
	}
	var args []val.V
	for i := 0; i < n; i++ {
		args = append(args, arg(i))
	}
	return val.Call(e.Op, args)
}

// HasAggregate reports whether a PQL expression contains an aggregate call.
func HasAggregate(e *E) bool {
	if e == nil {
		return false
	}
	if e.K == "call" && val.IsAggregate(strings.ToLower(e.Op)) {
		return true
	}
	for _, k := range e.Kids {
		if HasAggregate(k) {
			return true
		}
	}
	return false
}
