// vmon is the single binary of the verification harness.
//
//	vmon <ID> [quick|thorough]        run a check (coordinator)
//	vmon <ID> --replay <file>         re-run one recorded case
//	vmon worker <ID> --tier … --shard … (internal)
//	vmon list
package main

import (
	"encoding/json"
	"flag"
	"fmt"
	"os"
	"os/exec"
	"strconv"
	"strings"

	"verif/harness/mon"
	_ "verif/harness/props"
)

func main() {
	if len(os.Args) < 2 {
		fmt.Fprintln(os.Stderr, "usage: vmon <ID> [quick|thorough] | vmon <ID> --replay <file> | vmon list")
		os.Exit(2)
	}
	self, err := os.Executable()
	if err != nil {
		self = os.Args[0]
	}
	switch os.Args[1] {
	case "list":
		for _, id := range mon.IDs() {
			fmt.Println(id)
		}
		return
	case "worker":
		worker(os.Args[2:])
		return
	}
	if f, ok := mon.Subcommands[os.Args[1]]; ok {
		f(os.Args[2:])
		return
	}
	id := strings.ToUpper(os.Args[1])
	p := mon.Lookup(id)
	if p == nil {
		fmt.Fprintf(os.Stderr, "CHECK-ERROR unknown property %s\n", id)
		os.Exit(2)
	}
	tier := "quick"
	replay := ""
	rest := os.Args[2:]
	for i := 0; i < len(rest); i++ {
		switch rest[i] {
		case "quick", "thorough":
			tier = rest[i]
		case "--tier":
			i++
			if i < len(rest) {
				tier = rest[i]
			}
		case "--replay":
			i++
			if i < len(rest) {
				replay = rest[i]
			}
		}
	}
	if t := os.Getenv("VERIF_TIER"); t == "quick" || t == "thorough" {
		tier = t
	}
	seed := int64(1)
	if s := os.Getenv("VERIF_SEED"); s != "" {
		if n, err := strconv.ParseInt(s, 10, 64); err == nil {
			seed = n
		}
	}
	if replay != "" && p.Custom != nil {
		if p.CustomReplay == nil {
			fmt.Println("CHECK-ERROR property has no replay function")
			os.Exit(2)
		}
		b, err := os.ReadFile(replay)
		if err != nil {
			fmt.Println("CHECK-ERROR", err)
			os.Exit(2)
		}
		var rf struct {
			Case json.RawMessage `json:"case"`
		}
		json.Unmarshal(b, &rf)
		bin := self
		if p.Race {
			bin = self + "-race"
		}
		os.Exit(mon.RunCustomReplay(p, rf.Case, bin, replay))
	}
	if replay != "" {
		// Run the replay in a child so that a hang or crash cannot take the
		// reporting process down.
		bin := self
		if p.Race {
			bin = self + "-race"
		}
		cmd := exec.Command("timeout", "-s", "KILL", "300", bin, "worker", id, "--replay", replay)
		cmd.Stdout = os.Stdout
		cmd.Stderr = os.Stderr
		if err := cmd.Run(); err != nil {
			if ee, ok := err.(*exec.ExitError); ok {
				if ee.ExitCode() == 1 {
					os.Exit(1)
				}
				fmt.Printf("replay process ended abnormally (%v): for a totality property this reproduces the violation\n", err)
				if p.AnomalyIsViolation {
					fmt.Printf("VIOLATION property=%s replay=%s\n", id, replay)
					os.Exit(1)
				}
			}
			os.Exit(2)
		}
		return
	}
	bin := self
	if p.Race {
		bin = self + "-race"
	}
	os.Exit(mon.Run(p, tier, seed, bin))
}

func worker(args []string) {
	if len(args) < 1 {
		os.Exit(2)
	}
	id := strings.ToUpper(args[0])
	p := mon.Lookup(id)
	if p == nil {
		fmt.Fprintf(os.Stderr, "unknown property %s\n", id)
		os.Exit(2)
	}
	fs := flag.NewFlagSet("worker", flag.ExitOnError)
	tier := fs.String("tier", "quick", "")
	seed := fs.Int64("seed", 1, "")
	shard := fs.Int("shard", 0, "")
	nshards := fs.Int("nshards", 1, "")
	resume := fs.Int64("resume", 0, "")
	out := fs.String("out", "", "")
	replay := fs.String("replay", "", "")
	fs.Parse(args[1:])
	if !p.Race {
		mon.InstallHooks()
	}
	if *replay != "" {
		b, err := os.ReadFile(*replay)
		if err != nil {
			fmt.Fprintln(os.Stderr, err)
			os.Exit(2)
		}
		var rf struct {
			Key  mon.Str         `json:"key"`
			Case json.RawMessage `json:"case"`
		}
		if err := json.Unmarshal(b, &rf); err != nil {
			fmt.Fprintln(os.Stderr, err)
			os.Exit(2)
		}
		w := mon.NewWorker(mon.Config{Prop: id, Tier: "quick", Seed: *seed, NShards: 1, OutDir: *out, Shard: *shard, CaseCPUBudget: p.CaseCPUBudget, HeapBudget: p.HeapBudget})
		if p.Replay == nil {
			fmt.Println("property has no replay function")
			os.Exit(2)
		}
		w.DoOwned(string(rf.Key), func(r *mon.R) { p.Replay(rf.Case, r) })
		res := w.Result()
		if res.HarnessError != "" {
			fmt.Println("CHECK-ERROR", res.HarnessError)
			os.Exit(2)
		}
		if len(res.Violations) > 0 {
			fmt.Printf("  witness: %q\n    %s\n", string(rf.Key), res.Violations[0].Msg)
			fmt.Printf("VIOLATION property=%s replay=%s\n", id, *replay)
			os.Exit(1)
		}
		if res.Evaluations == 0 && len(res.Inconclusive) == 0 {
			fmt.Println("CHECK-ERROR replay did not execute the case")
			os.Exit(2)
		}
		fmt.Printf("%s replay: held (inconclusive=%v)\n", id, res.Inconclusive)
		return
	}
	w := mon.NewWorker(mon.Config{Prop: id, Tier: *tier, Seed: *seed, Shard: *shard, NShards: *nshards,
		Resume: *resume, OutDir: *out, CaseCPUBudget: p.CaseCPUBudget, HeapBudget: p.HeapBudget})
	p.Generate(w)
	w.Finish()
}
