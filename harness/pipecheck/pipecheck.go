// Package pipecheck is the shared oracle of C02 and C03: it compiles a
// generated pipeline with the real compiler, runs the emitted SQL on small
// database instances with the sequential table engine, interprets the
// pipeline left to right with the reference interpreter, and checks that the
// observed rows are one of the orders the semantics permits.
package pipecheck

import (
	"fmt"
	"sort"
	"strings"

	"verif/harness/gen"
	"verif/harness/mon"
	. "verif/harness/pqlref"
	"verif/harness/sqlmini"
	"verif/harness/val"
)

// Case is a pipeline and the seeds of the instances to run it on.
type Case struct {
	Pipe      *Pipe   `json:"pipe"`
	Instances []int64 `json:"instances"`
	// Lets are let statements written before the pipeline (closed constants).
	Lets []Let `json:"lets,omitempty"`
}

// Let is one let statement.
type Let struct {
	Name string `json:"name"`
	X    *E     `json:"x"`
}

func toSQLDB(db map[string]*RTable) sqlmini.DB {
	out := sqlmini.DB{}
	for n, t := range db {
		out[n] = &sqlmini.Table{Cols: t.Cols, Rows: t.Rows}
	}
	return out
}

func dbString(db map[string]*RTable, used map[string]bool) string {
	var names []string
	for n := range db {
		if used[n] {
			names = append(names, n)
		}
	}
	sort.Strings(names)
	var sb strings.Builder
	for _, n := range names {
		t := &sqlmini.Table{Cols: db[n].Cols, Rows: db[n].Rows}
		sb.WriteString("  " + n + " " + t.String() + "\n")
	}
	return sb.String()
}

func tablesOf(p *Pipe, set map[string]bool) {
	set[p.Table.Name] = true
	for _, op := range p.Ops {
		if op.Right != nil {
			tablesOf(op.Right, set)
		}
	}
}

// InstallSplitObserver records the split decisions the compiler really took.
func InstallSplitObserver(w *mon.W) {
	mon.SplitObserver = func(prevOp string, prevSorted, prevLimited bool, op string, attached bool) {
		short := func(s string) string {
			s = strings.TrimPrefix(s, "*parser.")
			return strings.TrimSuffix(s, "Operator")
		}
		prev := "start"
		if prevOp != "" {
			prev = short(prevOp)
		}
		dec := "new-subquery"
		if attached {
			dec = "attached"
		}
		w.SetAdd("split_states_seen", fmt.Sprintf("prev=%s sorted=%v limited=%v next=%s -> %s", prev, prevSorted, prevLimited, short(op), dec))
	}
}

// Check decides one case. prop is the property id for messages.
func Check(c *Case, r *mon.R, what string) {
	r.Case = c
	prog := &Program{}
	scope := map[string]val.V{}
	for _, l := range c.Lets {
		n := l.Name
		prog.Stmts = append(prog.Stmts, &Stmt{LetName: &Ident{Name: n}, LetX: l.X})
		cur := map[string]val.V{}
		for k, v := range scope {
			cur[k] = v
		}
		scope[n] = Eval(StripParens(l.X), &EvalCtx{Row: Row{}, Bind: func(name string) (val.V, bool) { v, ok := cur[name]; return v, ok }})
	}
	var bind func(string) (val.V, bool)
	if len(scope) > 0 {
		bind = func(name string) (val.V, bool) { v, ok := scope[name]; return v, ok }
	}
	prog.Stmts = append(prog.Stmts, &Stmt{Pipe: c.Pipe})
	// the layout varies with the case: unnamed columns are called like their source text, white space included
	lay := Layout{Mode: 0}
	if len(c.Instances) > 0 {
		switch c.Instances[0] % 3 {
		case 1:
			lay = Layout{Mode: 1}
		case 2:
			lay = gen.LayoutFor(c.Instances[0], 2)
		}
	}
	src := Print(prog, lay).Src
	sql, err, o := mon.Compile(src, nil)
	if o.Anomalous() {
		r.Inconclusive("foreign_compile_anomaly")
		return
	}
	if err != nil {
		r.Inconclusive("foreign_compile_error")
		r.SetAdd("foreign_compile_errors", clip(err.Error(), 100))
		return
	}
	st, perr := sqlmini.Parse(sql)
	if perr != nil {
		r.Inconclusive("foreign_invalid_sql")
		return
	}
	used := map[string]bool{}
	tablesOf(c.Pipe, used)
	decided := 0
	effects := map[string]bool{}
	determined := 0
	for _, seed := range c.Instances {
		db := gen.DB(gen.RNG(seed, "db"))
		rel, ierr := Interp(c.Pipe, db, bind)
		if ierr != nil {
			r.Count("instances_ill_typed", 1)
			continue
		}
		tab, rerr := sqlmini.Run(st, toSQLDB(db), nil)
		if qe, ok := rerr.(*sqlmini.QueryError); ok && !qe.Structural {
			// a value-level type error inside the engine: the reference may not
			// have evaluated that expression (undetermined rows): not judged
			r.Count("instances_engine_type_error", 1)
			continue
		}
		if rerr != nil {
			r.Violation("", "%s: the emitted SQL cannot be executed on an instance where the pipeline has a meaning\n  PQL  %s\n  SQL  %s\n  error: %v\n  expected result %s\n instance:\n%s", what, src, sql, rerr, rel.String(), dbString(db, used))
			return
		}
		if m := rel.Conform(tab.Cols, tab.Rows); m != "" {
			r.Violation("", "%s: running the emitted SQL does not return what applying the operators left to right returns: %s\n  PQL  %s\n  SQL  %s\n  SQL result      %s\n  expected result %s\n instance:\n%s", what, m, src, sql, tab.String(), rel.String(), dbString(db, used))
			return
		}
		decided++
		for k := range rel.Effects {
			effects[k] = true
		}
		if !rel.Weak {
			determined++
		}
	}
	if decided == 0 {
		r.Inconclusive("ill_typed_on_every_instance")
		return
	}
	r.Count("instances_checked", int64(decided))
	r.Count("instances_fully_determined", int64(determined))
	for k := range effects {
		r.SetAdd("effects_seen", k)
	}
	if len(c.Pipe.Ops) >= 2 && len(effects) > 0 {
		r.Nontrivial()
		if len(src) < 140 {
			r.Sample(map[string]any{"pql": src, "sql": sql, "instances": decided, "effects": keys(effects)})
		}
	}
}

func keys(m map[string]bool) []string {
	var l []string
	for k := range m {
		l = append(l, k)
	}
	sort.Strings(l)
	return l
}

func clip(s string, n int) string {
	if len(s) > n {
		return s[:n]
	}
	return s
}

// KindSeqKey renders the operator kinds of a pipeline.
func KindSeqKey(p *Pipe) string {
	var ks []string
	for _, op := range p.Ops {
		k := op.K
		if op.Right != nil {
			k += "(" + KindSeqKey(op.Right) + ")"
		}
		ks = append(ks, k)
	}
	return strings.Join(ks, ",")
}
