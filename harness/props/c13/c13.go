// Package c13: Compile returns SQL or an error, and rejects every documented misuse.
package c13

import (
	"encoding/json"
	"fmt"
	"math/rand"
	"strings"

	"verif/harness/gen"
	"verif/harness/mon"
	. "verif/harness/pqlref"
)

// Case: a valid program and (optionally) the same program with one planted
// rule violation; or a raw source for the either/or contract.
type Case struct {
	Twin    *Program `json:"twin,omitempty"`
	Planted *Program `json:"planted,omitempty"`
	Plant   string   `json:"plant,omitempty"`
	Path    string   `json:"path,omitempty"`
	Raw     *mon.Str `json:"raw,omitempty"`
	Params  int      `json:"params,omitempty"`
	// Hist: a two-call history sharing one parameter map of Size entries.
	Hist *Hist `json:"hist,omitempty"`
}

// Hist is a cross-call history: the first call binds Name to Value with let.
type Hist struct {
	Name  string `json:"name"`
	Value string `json:"value"`
	Size  int    `json:"size"`
}

func init() {
	mon.Register(&mon.Prop{
		ID:       "C13",
		Generate: generate,
		Replay: func(raw json.RawMessage, r *mon.R) {
			var c Case
			json.Unmarshal(raw, &c)
			Check(&c, r)
		},
		Rule: "(ii) seeded valid programs (lets closed over earlier bindings, all operators, nested joins, built-ins with correct arity) must compile; the same program with exactly one planted rule violation must fail with empty SQL. " +
			"Plants: every built-in with every wrong arity 0..4, $left/$right outside a join condition (including inside the right-hand pipeline of a join), a let value naming a column / quoted name / qualified name / later binding, unknown join kinds (case variants), " +
			"float/exponent/string literal row counts in take/limit/top, no tabular statement, two tabular statements; each planted at a random expression slot and node and nested in 0-3 harmless constructs (call, parentheses, index, in-list, iff, sign, arithmetic). " +
			"(i) on every call, including hostile byte strings, soups, pathological nestings and corrupted programs with parameter maps: SQL non-empty xor error non-nil. non-trivial = distinct (plant kind, context path, nesting) pair for (ii), distinct multi-token input for (i)",
		FloorQuick: 10_000, FloorThorough: 300_000,
		Assumptions: []string{"typing and column existence are not compile rules; generated valid programs are not necessarily executable"},
	})
}

var builtinArity = map[string][]int{"not": {1}, "isnull": {1}, "isnotnull": {1}, "tolower": {1}, "toupper": {1}, "countif": {1}, "now": {0}, "count": {0}, "iff": {3}, "iif": {3}, "strcat": {1, 2, 3, 4}}

func okArity(fn string, n int) bool {
	for _, a := range builtinArity[fn] {
		if a == n {
			return true
		}
	}
	return false
}

func idp(n string) *Ident { return &Ident{Name: n} }

func generate(w *mon.W) {
	rng := gen.RNG(w.Seed, "c13")
	vg := &gen.Valid{Rng: rng}
	plants := []string{"arity", "arity", "arity", "leftright", "leftright", "let-column", "let-quoted", "let-qualified", "let-later", "join-kind", "rowcount", "rowcount", "no-query", "two-queries"}
	n := w.Pick(12_000, 400_000)
	for i := 0; i < n && !w.Stopped(); i++ {
		twin := vg.Program()
		kind := plants[i%len(plants)]
		planted, path := plant(gen.CloneProgram(twin), kind, rng)
		if planted == nil {
			continue
		}
		c := &Case{Twin: twin, Planted: planted, Plant: kind, Path: path}
		w.Do("p|"+Print(planted, Layout{Mode: 0}).Src, func(r *mon.R) { Check(c, r) })
	}
	// wide valid programs must compile (those whose built-ins have the right arity)
	for _, kind := range gen.WideKinds {
		if kind == "statements" || kind == "not-nest" {
			continue
		}
		sizes := gen.WideSizes
		switch kind {
		case "in", "in-consts", "let-uses", "where-consts", "wheres", "and", "plus", "project", "lets", "call-args":
			// list-like constructs also in sizes of a few thousand
			sizes = append(append([]int{}, sizes...), gen.WideSizesBig...)
		}
		for _, n := range sizes {
			twin := gen.Wide(kind, n)
			planted, path := plant(gen.CloneProgram(twin), []string{"arity", "leftright", "rowcount", "two-queries"}[n%4], rng)
			if planted == nil {
				continue
			}
			c := &Case{Twin: twin, Planted: planted, Plant: "wide", Path: path}
			w.Do(fmt.Sprint("wide|", kind, "|", n), func(r *mon.R) { Check(c, r) })
		}
	}
	// $left / $right standing alone where a column name can stand without an
	// expression around it: every operator's bare forms, at top level, inside a
	// join's right-hand side and after a join
	{
		forms := []func(x *E) *Op{
			// a project column is a name with or without `= expression`: the bare form
			// exists for single names only
			func(x *E) *Op {
				if len(x.Parts) == 1 {
					return &Op{K: "project", Cols: []Col{{Name: idp("k")}, {Name: &x.Parts[0]}}}
				}
				return &Op{K: "project", Cols: []Col{{Name: idp("k")}, {Name: idp("p"), X: x}}}
			},
			func(x *E) *Op {
				if len(x.Parts) == 1 {
					return &Op{K: "project", Cols: []Col{{Name: &x.Parts[0]}}}
				}
				return &Op{K: "project", Cols: []Col{{Name: idp("p"), X: x}}}
			},
			func(x *E) *Op { return &Op{K: "extend", Cols: []Col{{X: x}}} },
			func(x *E) *Op {
				return &Op{K: "summarize", Cols: []Col{{X: Call("count")}}, HasBy: true, By: []Col{{X: x}}}
			},
			func(x *E) *Op { return &Op{K: "summarize", HasBy: true, By: []Col{{X: Name("k")}, {X: x}}} },
			func(x *E) *Op { return &Op{K: "sort", Terms: []SortTerm{{X: x}}} },
			func(x *E) *Op {
				return &Op{K: "sort", Terms: []SortTerm{{X: Name("k"), Dir: "asc"}, {X: x, Dir: "desc", Nulls: "first"}}}
			},
			func(x *E) *Op { return &Op{K: "top", X: Num("3"), Terms: []SortTerm{{X: x}}} },
			func(x *E) *Op { return &Op{K: "take", X: x} },
			func(x *E) *Op { return &Op{K: "where", X: x} },
		}
		bads := []*E{Name("$left"), Name("$right"), Name("$left", "k"), Name("k", "$right"), Paren(Name("$left"))}
		for fi, f := range forms {
			for bi, bad := range bads {
				for place := 0; place < 3; place++ {
					build := func(x *E) *Program {
						switch place {
						case 0:
							return Query("T", f(x))
						case 1:
							return Query("T", &Op{K: "join", Right: &Pipe{Table: Ident{Name: "U"}, Ops: []*Op{f(x)}}, Conds: []*E{Name("k")}})
						}
						return Query("T", &Op{K: "join", Right: &Pipe{Table: Ident{Name: "U"}}, Conds: []*E{Bin("==", Name("$left", "k"), Name("$right", "k"))}}, f(x))
					}
					harmless := Name("k")
					if fi == 8 {
						harmless = Num("5")
					}
					c := &Case{Twin: build(harmless), Planted: build(bad), Plant: "leftright", Path: fmt.Sprintf("leftright:bare@form%d/bad%d/place%d", fi, bi, place)}
					w.Do(fmt.Sprint("bare|", fi, "|", bi, "|", place), func(r *mon.R) { Check(c, r) })
				}
			}
		}
	}
	// the let rule across calls: a name an earlier call bound with let is bound
	// nowhere in a later source, also when both calls are given the same
	// parameter map (of any size)
	for _, b := range [][2]string{{"threshold", "5"}, {"lo", "-1"}, {"s", "'x'"}, {"n", "(2)"}, {"hi", "+3"}, {"p0", "7"}} {
		for _, size := range []int{1, 3, 8, 9, 17, 41, 130} {
			b, size := b, size
			c := &Case{Hist: &Hist{b[0], b[1], size}}
			w.Do(fmt.Sprint("hist|", b[0], "|", size), func(r *mon.R) { Check(c, r) })
		}
	}
	// (i) either/or on hostile inputs
	do := func(s string, pm int) {
		ms := mon.Str(s)
		c := &Case{Raw: &ms, Params: pm}
		w.Do(fmt.Sprint("r|", pm, "|", s), func(r *mon.R) { Check(c, r) })
	}
	for _, size := range []int{64, 1024} {
		for _, p := range gen.Patho(size) {
			do(p.Src, 0)
		}
	}
	seeds := gen.Seeds()
	for _, s := range seeds {
		do(s, 0)
		do(s, 3)
	}
	corpus := gen.NewCorpus(seeds, 1)
	n = w.Pick(40_000, 1_500_000)
	for i := 0; i < n && !w.Stopped(); i++ {
		var s string
		switch i % 10 {
		case 0:
			s = gen.RandomBytes(rng, 1+rng.Intn(80))
		case 1:
			s = gen.Soup(rng, 1+rng.Intn(200))
		default:
			s = corpus.Mutant(rng)
		}
		do(s, i%len(gen.ParamMaps))
	}
}

// nodes lists pointers to every node of an expression (pre-order) with a
// setter.
type nodeRef struct {
	get func() *E
	set func(*E)
	in  string
}

func nodeRefs(root func() *E, setRoot func(*E)) []nodeRef {
	var out []nodeRef
	var walk func(get func() *E, set func(*E), in string)
	walk = func(get func() *E, set func(*E), in string) {
		out = append(out, nodeRef{get, set, in})
		e := get()
		for i := range e.Kids {
			i := i
			walk(func() *E { return e.Kids[i] }, func(n *E) { e.Kids[i] = n }, e.K)
		}
	}
	walk(root, setRoot, "top")
	return out
}

func nest(bad *E, rng *rand.Rand) (*E, string) {
	path := ""
	for k := rng.Intn(4); k > 0; k-- {
		switch rng.Intn(20) {
		case 8:
			bad, path = Call("isnull", bad), path+"/isnull"
		case 9:
			bad, path = Call("isnotnull", bad), path+"/isnotnull"
		case 10:
			bad, path = Call("tolower", bad), path+"/tolower"
		case 11:
			bad, path = Call("toupper", bad), path+"/toupper"
		case 12:
			bad, path = Call("countif", bad), path+"/countif"
		case 13:
			bad, path = Call("iff", bad, Num("1"), Num("0")), path+"/iff-cond"
		case 14:
			bad, path = Call("iif", Name("true"), Num("1"), bad), path+"/iif-else"
		case 15:
			bad, path = Call("strcat", bad), path+"/strcat1"
		case 16:
			bad, path = Un("-", bad), path+"/sign"
		case 17:
			bad, path = Idx(bad, Num("1")), path+"/index-base"
		case 18:
			bad, path = In(bad, Num("1"), Num("2")), path+"/in-lhs"
		case 19:
			bad, path = Bin([]string{"==", "and", "=~", "<", "*"}[rng.Intn(5)], Num("1"), bad), path+"/binary-rhs"
		case 0:
			bad, path = Call("f", bad, Num("1")), path+"/call"
		case 1:
			bad, path = Paren(bad), path+"/paren"
		case 2:
			bad, path = Idx(Name("ma"), bad), path+"/index"
		case 3:
			bad, path = In(Name("ia"), Num("1"), bad), path+"/in-list"
		case 4:
			bad, path = Call("iff", Name("true"), bad, Num("0")), path+"/iff"
		case 5:
			bad, path = Bin("+", bad, Num("1")), path+"/arith"
		case 6:
			bad, path = Call("not", bad), path+"/not"
		case 7:
			bad, path = Call("strcat", Str("'a'", "a"), bad), path+"/strcat"
		}
	}
	return bad, path
}

// plant introduces exactly one rule violation; it returns nil if the program
// offers no place for that kind.
func plant(p *Program, kind string, rng *rand.Rand) (*Program, string) {
	slots := gen.Slots(p)
	exprPlant := func(bad *E, allow func(gen.Slot) bool, what string) (*Program, string) {
		var el []gen.Slot
		for _, s := range slots {
			if allow(s) && !s.Inert {
				el = append(el, s)
			}
		}
		if len(el) == 0 {
			return nil, ""
		}
		s := el[rng.Intn(len(el))]
		refs := nodeRefs(s.Get, s.Set)
		// do not replace inside a paren-less position that the printer cannot
		// repair: Parenthesize below adds whatever is needed
		ref := refs[rng.Intn(len(refs))]
		nb, np := nest(bad, rng)
		ref.set(nb)
		s.Set(Parenthesize(StripParens(s.Get()), nil))
		return p, what + "@" + s.Path + "/" + ref.in + np
	}
	switch kind {
	case "arity":
		fns := []string{"not", "isnull", "isnotnull", "tolower", "toupper", "countif", "now", "count", "iff", "iif", "strcat"}
		fn := fns[rng.Intn(len(fns))]
		n := rng.Intn(5)
		for okArity(fn, n) {
			n = rng.Intn(5)
		}
		bad := Call(fn)
		for i := 0; i < n; i++ {
			bad.Kids = append(bad.Kids, []*E{Name("ia"), Num("1"), Name("true"), Str("'s'", "s")}[rng.Intn(4)])
		}
		return exprPlant(bad, func(s gen.Slot) bool { return true }, fmt.Sprintf("arity:%s/%d", fn, n))
	case "leftright":
		side := []string{"$left", "$right"}[rng.Intn(2)]
		var bad *E
		switch rng.Intn(7) {
		case 0:
			bad = Name(side)
		case 1:
			bad = Name("a", side)
		case 2:
			bad = Name("a", "b", side)
		case 3:
			bad = Name(side, "x", "y")
		default:
			bad = Name(side, "k")
		}
		return exprPlant(bad, func(s gen.Slot) bool { return !s.InJoinCond }, "leftright:"+side)
	case "let-column", "let-quoted", "let-qualified", "let-later":
		var bad *E
		extra := []*Stmt{}
		switch kind {
		case "let-column":
			bad = Name([]string{"ia", "somecolumn", "T"}[rng.Intn(3)])
		case "let-quoted":
			// even the name of an earlier binding is not allowed when quoted
			extra = append(extra, &Stmt{LetName: &Ident{Name: "early"}, LetX: Num("1")})
			bad = QName("early")
		case "let-qualified":
			bad = Name([][]string{{"early", "x"}, {"early", "x", "y"}, {"db", "T", "c"}, {"a", "b", "c", "d"}, {"x", "early"}}[rng.Intn(5)]...)
			extra = append(extra, &Stmt{LetName: &Ident{Name: "early"}, LetX: Num("1")})
		case "let-later":
			bad = Name("later")
		}
		nb, np := nest(bad, rng)
		st := &Stmt{LetName: &Ident{Name: "planted"}, LetX: Parenthesize(StripParens(nb), nil)}
		// insert before the query
		qi := 0
		for i, s := range p.Stmts {
			if s.Pipe != nil {
				qi = i
				break
			}
		}
		ns := append([]*Stmt{}, p.Stmts[:qi]...)
		ns = append(ns, extra...)
		ns = append(ns, st)
		if kind == "let-later" {
			ns = append(ns, &Stmt{LetName: &Ident{Name: "later"}, LetX: Num("2")})
		}
		ns = append(ns, p.Stmts[qi:]...)
		p.Stmts = ns
		p.Empties = nil
		return p, kind + "@let" + np
	case "join-kind", "rowcount":
		var ops []*Op
		var paths []string
		var collect func(t *Pipe, prefix string)
		collect = func(t *Pipe, prefix string) {
			for _, op := range t.Ops {
				if (kind == "join-kind" && op.K == "join") || (kind == "rowcount" && (op.K == "take" || op.K == "top")) {
					ops = append(ops, op)
					paths = append(paths, prefix+op.K)
				}
				if op.Right != nil {
					collect(op.Right, prefix+"join.right/")
				}
			}
		}
		var q *Pipe
		for _, s := range p.Stmts {
			if s.Pipe != nil {
				q = s.Pipe
			}
		}
		collect(q, "")
		if len(ops) == 0 || rng.Intn(4) == 0 {
			var op *Op
			if kind == "join-kind" {
				op = &Op{K: "join", Right: &Pipe{Table: Ident{Name: "U"}}, Conds: []*E{Name("k")}}
			} else if rng.Intn(2) == 0 {
				op = &Op{K: "take", Kw: []string{"take", "limit"}[rng.Intn(2)]}
			} else {
				op = &Op{K: "top", Terms: []SortTerm{{X: Name("ia")}}}
			}
			at := rng.Intn(len(q.Ops) + 1)
			q.Ops = append(q.Ops[:at:at], append([]*Op{op}, q.Ops[at:]...)...)
			ops, paths = []*Op{op}, []string{op.K + "(added)"}
		}
		i := rng.Intn(len(ops))
		if kind == "join-kind" {
			ops[i].Kind = []string{"outer", "INNER", "Inner", "full", "rightouter", "leftOuter", "innerUnique", "cross", "left", "kind"}[rng.Intn(10)]
			return p, "join-kind:" + ops[i].Kind + "@" + paths[i]
		}
		bad := []*E{Num("1.5"), Num("1e3"), Num("2."), Num(".5"), Num("1E1"), Num("0e0"), Str("'3'", "3"), Str(`"10"`, "10"), Num("3.0")}[rng.Intn(9)]
		ops[i].X = bad
		return p, "rowcount:" + bad.Lit + "@" + paths[i]
	case "no-query":
		var ns []*Stmt
		for _, s := range p.Stmts {
			if s.Pipe == nil {
				ns = append(ns, s)
			}
		}
		p.Stmts = ns
		p.Empties = nil
		return p, fmt.Sprintf("no-query@%d-lets", len(ns))
	case "two-queries":
		second := &Stmt{Pipe: &Pipe{Table: Ident{Name: "Other"}}}
		if rng.Intn(2) == 0 {
			second.Pipe.Ops = []*Op{{K: "count"}}
		}
		at := rng.Intn(len(p.Stmts) + 1)
		p.Stmts = append(p.Stmts[:at:at], append([]*Stmt{second}, p.Stmts[at:]...)...)
		p.Empties = nil
		return p, fmt.Sprintf("two-queries@%d", at)
	}
	return nil, ""
}

func eitherOr(what, src string, sql string, err error, r *mon.R) bool {
	if (sql != "") == (err != nil) {
		r.Violation("", "%s(%q) returned SQL %q together with error %v: neither or both", what, src, sql, err)
		return false
	}
	return true
}

// PlantedSources returns n programs with one planted rule violation each (and
// their valid twins), for checks that judge any call on any input.
func PlantedSources(seed int64, n int) []string {
	rng := gen.RNG(seed, "c13-planted")
	vg := &gen.Valid{Rng: rng}
	plants := []string{"arity", "arity", "arity", "leftright", "let-column", "let-quoted", "let-qualified", "let-later", "join-kind", "rowcount", "no-query", "two-queries"}
	var out []string
	for i := 0; len(out) < n && i < 4*n; i++ {
		twin := vg.Program()
		planted, _ := plant(gen.CloneProgram(twin), plants[i%len(plants)], rng)
		if planted == nil {
			continue
		}
		out = append(out, Print(planted, Layout{Mode: 0}).Src)
	}
	return out
}

// checkHistory: two calls given the same parameter map; the first binds name
// with let, the second refers to it without binding it.
func checkHistory(name, value string, size int, r *mon.R) {
	pm := map[string]string{}
	for i := 0; i < size; i++ {
		pm[fmt.Sprintf("p%d", i)] = fmt.Sprintf("$%d", i+1)
	}
	fresh := map[string]string{}
	for k, v := range pm {
		fresh[k] = v
	}
	first := "let " + name + " = " + value + "; T | where a == " + name
	second := "let cutoff = " + name + " + 1; T | where a == cutoff"
	want, wantErr, o0 := mon.Compile(second, fresh)
	_, err1, o1 := mon.Compile(first, pm)
	if o0.Anomalous() || o1.Anomalous() || err1 != nil {
		r.Inconclusive("foreign_compile")
		return
	}
	if o1.Mutated != "" {
		r.Violation("", "Compile(%q) with a %d-entry parameter map wrote to that map (%s): a later source that binds %s nowhere would see it bound", first, size, o1.Mutated, name)
		return
	}
	got, gotErr, o2 := mon.Compile(second, pm)
	if o2.Anomalous() {
		r.Inconclusive("foreign_compile")
		return
	}
	if (gotErr == nil) != (wantErr == nil) || got != want {
		r.Violation("", "Compile(%q) gives (%q, %v) after Compile(%q) was given the same %d-entry parameter map, and (%q, %v) with an equal fresh map: a let value may only refer to bindings of its own source and the parameters", second, got, gotErr, first, size, want, wantErr)
		return
	}
	_, bound := pm[name]
	if !bound && gotErr == nil {
		r.Violation("", "Compile(%q) succeeds although %s is bound nowhere in it", second, name)
		return
	}
	r.Nontrivial()
	r.Count("cross_call_histories", 1)
}

// Check decides one case.
func Check(c *Case, r *mon.R) {
	r.Case = c
	if c.Hist != nil {
		checkHistory(c.Hist.Name, c.Hist.Value, c.Hist.Size, r)
		return
	}
	if c.Raw != nil {
		src := string(*c.Raw)
		sql, err, o := mon.Compile(src, gen.ParamMaps[c.Params%len(gen.ParamMaps)])
		if o.Anomalous() {
			r.Inconclusive("foreign_compile_anomaly")
			return
		}
		if !eitherOr("Compile", src, sql, err, r) {
			return
		}
		if err != nil {
			r.Count("rejected", 1)
		} else {
			r.Count("accepted", 1)
		}
		if len(gen.Lexemes(src)) >= 2 {
			r.Nontrivial()
		}
		return
	}
	twinSrc := Print(c.Twin, Layout{Mode: 0}).Src
	sql, err, o := mon.Compile(twinSrc, nil)
	if o.Anomalous() {
		r.Inconclusive("foreign_compile_anomaly")
		return
	}
	if !eitherOr("Compile", twinSrc, sql, err, r) {
		return
	}
	if err != nil {
		r.Violation("", "a program that breaks none of the documented rules does not compile: Compile(%q): %v", twinSrc, err)
		return
	}
	src := Print(c.Planted, Layout{Mode: 0}).Src
	sql2, err2, o := mon.Compile(src, nil)
	if o.Anomalous() {
		r.Inconclusive("foreign_compile_anomaly")
		return
	}
	if !eitherOr("Compile", src, sql2, err2, r) {
		return
	}
	if err2 == nil {
		r.Violation("", "a documented misuse is accepted (%s): Compile(%q) = %q; the program without it is %q", c.Path, src, sql2, twinSrc)
		return
	}
	kindOf := strings.SplitN(strings.SplitN(c.Path, "@", 2)[0], ":", 2)[0]
	ctx := ctxOf(c.Path)
	slot := strings.SplitN(ctx, "/", 2)[0]
	if i := strings.LastIndex(ctx, ".right/"); i >= 0 {
		slot = "join.right/" + strings.SplitN(ctx[i+7:], "/", 2)[0]
	}
	// a failed compilation must leave nothing behind: a let of the rejected
	// program is not a binding in the next one
	for _, st := range c.Planted.Stmts {
		if st.LetName == nil {
			continue
		}
		probe := "let zz_probe = " + st.LetName.Name + "; T | take 1"
		psql, perr, po := mon.Compile(probe, nil)
		if po.Anomalous() {
			r.Inconclusive("foreign_compile_anomaly")
			return
		}
		if perr == nil {
			r.Violation("", "after Compile(%q) failed, Compile(%q) succeeds with %q: the let value refers to %q, which is neither a constant nor an earlier binding of that program", src, probe, psql, st.LetName.Name)
			return
		}
		r.Count("leak_probes", 1)
		break
	}
	r.SetAdd("plant_contexts", kindOf+"@"+slot)
	r.SetAdd("plants", strings.SplitN(c.Path, "@", 2)[0])
	r.MaxOf("max_plant_nesting", int64(strings.Count(ctx, "/")))
	r.Count("plants_rejected", 1)
	r.Nontrivial()
	if len(src) < 110 {
		r.Sample(map[string]any{"plant": c.Path, "planted": src, "error": err2.Error(), "twin": twinSrc})
	}
}

func ctxOf(path string) string {
	p := strings.SplitN(path, "@", 2)
	if len(p) < 2 {
		return ""
	}
	return p[1]
}
