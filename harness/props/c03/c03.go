// Package c03: joins combine the pipeline so far with the right-hand pipeline.
package c03

import (
	"encoding/json"

	"verif/harness/gen"
	"verif/harness/mon"
	"verif/harness/pipecheck"
	. "verif/harness/pqlref"
)

func init() {
	mon.Register(&mon.Prop{
		ID:       "C03",
		Generate: generate,
		Replay: func(raw json.RawMessage, r *mon.R) {
			var c pipecheck.Case
			json.Unmarshal(raw, &c)
			pipecheck.Check(&c, r, "C03")
		},
		Rule: "pipelines = left prefix (0-2 operators of every kind) + join (kind default/innerunique/inner/leftouter x condition forms: bare key, several keys, $left.x == $right.y, reversed sides, non-equality, extra conjunct, literal true) " +
			"x right-hand pipeline (table, 1-3 operators, a join nested inside, `as`) + 0-2 suffix operators; two and three joins in sequence; nesting depth up to 3. Tables have duplicate left rows, unmatched left rows, NULL keys, and left/right column sets disjoint except for key names. " +
			"Same oracle as C02: the emitted SQL is executed by the independent table engine on 3/6 small instances and compared with the reference join of the interpreter's left result with the independently interpreted right pipeline " +
			"(match iff the PQL condition is TRUE; innerunique de-duplicates whole left rows; leftouter pads with NULLs). non-trivial = distinct pipeline in which the join had a visible effect (matched, dropped, padded or de-duplicated rows)",
		FloorQuick: 1_500, FloorThorough: 40_000,
		Assumptions: []string{
			"operators after a join only reference columns that exist on exactly one side (DESIGN.md section 7)",
			"the plain '=' the compiler documents for $left/$right equality differs from '==' only in NULL vs FALSE, which is invisible in a join predicate at conjunct positions",
		},
	})
}

func generate(w *mon.W) {
	pipecheck.InstallSplitObserver(w)
	nInst := w.Pick(3, 6)
	rng := gen.RNG(w.Seed, "c03")
	n := w.Pick(4_000, 120_000)
	pre := []string{"where", "project", "extend", "sort", "take", "top", "as", "summarize", "render", "count"}
	for i := 0; i < n && !w.Stopped(); i++ {
		var seq []string
		for k := rng.Intn(3); k > 0; k-- {
			seq = append(seq, pre[rng.Intn(len(pre)-2)])
		}
		seq = append(seq, "join")
		switch rng.Intn(6) {
		case 0:
			seq = append(seq, "join")
		case 1:
			seq = append(seq, pre[rng.Intn(len(pre))], "join")
			if rng.Intn(3) == 0 {
				seq = append(seq, "join")
			}
		}
		for k := rng.Intn(3); k > 0; k-- {
			seq = append(seq, pre[rng.Intn(len(pre))])
		}
		g := &gen.PipeGen{Rng: rng, DetSort: 80, MaxDepth: 2}
		p, _ := g.Pipe("T", seq, 2)
		c := &pipecheck.Case{Pipe: p}
		for k := 0; k < nInst; k++ {
			c.Instances = append(c.Instances, rng.Int63())
		}
		key := Print(&Program{Stmts: []*Stmt{{Pipe: p}}}, Layout{Mode: 0}).Src
		w.Do(key, func(r *mon.R) { pipecheck.Check(c, r, "C03") })
	}
}
