// Package c03: joins combine the pipeline so far with the right-hand pipeline.
package c03

import (
	"encoding/json"

	"verif/harness/gen"
	"verif/harness/mon"
	"verif/harness/pipecheck"
	. "verif/harness/pqlref"
)

func init() {
	mon.Register(&mon.Prop{
		ID:       "C03",
		Generate: generate,
		Replay: func(raw json.RawMessage, r *mon.R) {
			var c pipecheck.Case
			json.Unmarshal(raw, &c)
			pipecheck.Check(&c, r, "C03")
		},
		Rule: "pipelines = left prefix (0-2 operators of every kind) + join (kind default/innerunique/inner/leftouter x condition forms: bare key, several keys, $left.x == $right.y, reversed sides, non-equality, extra conjunct, literal true) " +
			"x right-hand pipeline (table, 1-3 operators, a join nested inside, `as`) + 0-2 suffix operators; two and three joins in sequence; nesting depth up to 3. Tables have duplicate left rows, unmatched left rows, NULL keys, and left/right column sets disjoint except for key names. " +
			"Same oracle as C02: the emitted SQL is executed by the independent table engine on 3/6 small instances and compared with the reference join of the interpreter's left result with the independently interpreted right pipeline " +
			"(match iff the PQL condition is TRUE; innerunique de-duplicates whole left rows; leftouter pads with NULLs). non-trivial = distinct pipeline in which the join had a visible effect (matched, dropped, padded or de-duplicated rows)",
		FloorQuick: 1_500, FloorThorough: 40_000,
		Assumptions: []string{
			"operators after a join only reference columns that exist on exactly one side (DESIGN.md section 7)",
			"the plain '=' the compiler documents for $left/$right equality differs from '==' only in NULL vs FALSE, which is invisible in a join predicate at conjunct positions",
		},
	})
}

func generate(w *mon.W) {
	pipecheck.InstallSplitObserver(w)
	nInst := w.Pick(3, 6)
	rng := gen.RNG(w.Seed, "c03")
	n := w.Pick(14_000, 240_000)
	pre := []string{"where", "project", "extend", "sort", "take", "top", "as", "summarize", "render", "count"}
	for i := 0; i < n && !w.Stopped(); i++ {
		var seq []string
		for k := rng.Intn(3); k > 0; k-- {
			seq = append(seq, pre[rng.Intn(len(pre)-2)])
		}
		seq = append(seq, "join")
		switch rng.Intn(6) {
		case 0:
			seq = append(seq, "join")
		case 1:
			seq = append(seq, pre[rng.Intn(len(pre))], "join")
			if rng.Intn(3) == 0 {
				seq = append(seq, "join")
			}
		}
		for k := rng.Intn(3); k > 0; k-- {
			seq = append(seq, pre[rng.Intn(len(pre))])
		}
		g := &gen.PipeGen{Rng: rng, DetSort: 80, MaxDepth: 2}
		p, _ := g.Pipe("T", seq, 2)
		// every other pipeline is one of the directed families, the rest are random
		j := i / 18
		switch i % 18 {
		case 0:
			p = twinJoins(rng)
		case 2, 8:
			p = summarizeThenNestedJoin(rng)
		case 4:
			p = distinctThenDuplicates(rng)
		case 6:
			p = namedThenNarrowed(rng)
		case 9:
			switch j % 5 {
			case 2:
				p = functionNamedKeys(j / 5)
			case 3:
				p = sortedThenLimitedRight(j / 5)
			case 4:
				p = constantCondition(j / 5)
			default:
				p = renamedKeys(j/5*2 + j%5)
			}
		case 10:
			p = manyConditions(rng, 1+j%20)
		case 12:
			p = pairedConditions(rng, j%9)
		case 14:
			p = oneSidedConditions(rng, j%30)
		case 16:
			if j%2 == 0 {
				p = orientedComparison(rng, (j/2)%24)
			} else {
				p = joinThenNarrowedCount(rng, (j/2)%8)
			}
		}
		c := &pipecheck.Case{Pipe: p}
		for k := 0; k < nInst; k++ {
			c.Instances = append(c.Instances, rng.Int63())
		}
		key := Print(&Program{Stmts: []*Stmt{{Pipe: p}}}, Layout{Mode: 0}).Src
		w.Do(key, func(r *mon.R) { pipecheck.Check(c, r, "C03") })
	}
}

// DirectedPipelines returns n pipelines of the directed join families, for
// checks that judge any successful compilation.
func DirectedPipelines(seed int64, n int) []*Pipe {
	rng := gen.RNG(seed, "c03-directed")
	var out []*Pipe
	for i := 0; len(out) < n; i++ {
		j := i / 10
		switch i % 10 {
		case 9:
			switch j % 5 {
			case 2:
				out = append(out, functionNamedKeys(j/5))
			case 3:
				out = append(out, sortedThenLimitedRight(j/5))
			case 4:
				out = append(out, constantCondition(j/5))
			default:
				out = append(out, renamedKeys(j/5*2+j%5))
			}
		case 0:
			out = append(out, twinJoins(rng))
		case 1:
			out = append(out, summarizeThenNestedJoin(rng))
		case 2:
			out = append(out, distinctThenDuplicates(rng))
		case 3:
			out = append(out, namedThenNarrowed(rng))
		case 4:
			out = append(out, manyConditions(rng, 1+j%20))
		case 5:
			out = append(out, pairedConditions(rng, j%9))
		case 6:
			out = append(out, oneSidedConditions(rng, j%30))
		case 7:
			out = append(out, orientedComparison(rng, j%24))
		default:
			out = append(out, joinThenNarrowedCount(rng, j%8))
		}
	}
	return out
}

// renamedKeys: the key columns of both sides renamed to every pair of names
// out of a small pool in which names are prefixes, suffixes and concatenations
// of each other, joined on two equalities: form picks the ordered pairs.
func renamedKeys(form int) *Pipe {
	pool := []string{"x", "y", "xy", "yx", "x_y"}
	var pairs [][2]string
	for _, a := range pool {
		for _, b := range pool {
			if a != b {
				pairs = append(pairs, [2]string{a, b})
			}
		}
	}
	lp := pairs[form%len(pairs)]
	rp := pairs[(form/len(pairs))%len(pairs)]
	v := form / (len(pairs) * len(pairs))
	col := func(n, src string) Col { id := Ident{Name: n}; return Col{Name: &id, X: Name(src)} }
	bare := func(n string) Col { id := Ident{Name: n}; return Col{Name: &id} }
	left := &Op{K: "project", Cols: []Col{col(lp[0], "k"), col(lp[1], "j"), bare("id")}}
	right := &Pipe{Table: Ident{Name: "U"}, Ops: []*Op{{K: "project", Cols: []Col{col(rp[0], "k"), col(rp[1], "j"), bare("uid")}}}}
	conds := []*E{Bin("==", Name("$left", lp[0]), Name("$right", rp[0])), Bin("==", Name("$left", lp[1]), Name("$right", rp[1]))}
	p := &Pipe{Table: Ident{Name: "T"}, Ops: []*Op{left}}
	kind := []string{"", "inner", "leftouter", "innerunique"}[v%4]
	p.Ops = append(p.Ops, &Op{K: "join", Kind: kind, Right: right, Conds: conds})
	switch (v / 4) % 3 {
	case 0:
		p.Ops = append(p.Ops, &Op{K: "count"})
	case 1:
		p.Ops = append(p.Ops, &Op{K: "project", Cols: []Col{bare("id"), bare("uid")}})
	}
	return p
}

// sortedThenLimitedRight: the right-hand side sorts, then does something that
// starts a new SELECT, then limits: which rows it keeps depends on its sort.
func sortedThenLimitedRight(form int) *Pipe {
	mids := []func() *Op{
		func() *Op { return &Op{K: "where", X: Bin(">=", Name("uid"), Num("0"))} },
		func() *Op {
			return &Op{K: "project", Cols: []Col{{Name: &Ident{Name: "k"}}, {Name: &Ident{Name: "uid"}}, {Name: &Ident{Name: "ub"}}}}
		},
		func() *Op { return &Op{K: "extend", Cols: []Col{{Name: &Ident{Name: "e1"}, X: Bin("+", Name("uid"), Num("1"))}}} },
		func() *Op { return &Op{K: "where", X: Call("not", Call("isnull", Name("uid")))} },
	}
	sorts := []SortTerm{{X: Name("uid"), Dir: "desc"}, {X: Name("uid"), Dir: "asc"}, {X: Name("ub"), Dir: "desc", Nulls: "last"}, {X: Bin("-", Num("0"), Name("uid"))}}
	st := sorts[form%len(sorts)]
	terms := []SortTerm{st}
	if form%len(sorts) == 2 {
		terms = append(terms, SortTerm{X: Name("uid"), Dir: "asc"})
	}
	v := form / len(sorts)
	right := &Pipe{Table: Ident{Name: "U"}, Ops: []*Op{{K: "sort", Terms: terms}, mids[v%len(mids)](), {K: "take", X: Num([]string{"1", "2", "3"}[(v/len(mids))%3])}}}
	kind := []string{"", "inner", "leftouter", "innerunique"}[(v/12)%4]
	p := &Pipe{Table: Ident{Name: "T"}}
	if (v/48)%2 == 1 {
		p.Ops = append(p.Ops, &Op{K: "where", X: Bin(">=", Name("id"), Num("0"))})
	}
	p.Ops = append(p.Ops, &Op{K: "join", Kind: kind, Right: right, Conds: []*E{Name("k")}})
	p.Ops = append(p.Ops, &Op{K: "project", Cols: []Col{{Name: &Ident{Name: "id"}}, {Name: &Ident{Name: "uid"}}}})
	return p
}

// constantCondition: a join whose only condition is a constant (true matches
// every pair, false and null none), for every kind, on a full, an emptied and
// a one-row right-hand side.
func constantCondition(form int) *Pipe {
	conds := []*E{Name("true"), Name("false"), Name("null"), Paren(Name("true")), Bin("==", Num("1"), Num("1")), Call("not", Name("false"))}
	rights := []func() *Pipe{
		func() *Pipe { return &Pipe{Table: Ident{Name: "U"}} },
		func() *Pipe {
			return &Pipe{Table: Ident{Name: "U"}, Ops: []*Op{{K: "where", X: Bin("<", Name("uid"), Num("0"))}}}
		},
		func() *Pipe { return &Pipe{Table: Ident{Name: "U"}, Ops: []*Op{{K: "take", X: Num("0")}}} },
		func() *Pipe {
			return &Pipe{Table: Ident{Name: "U"}, Ops: []*Op{{K: "sort", Terms: []SortTerm{{X: Name("uid"), Dir: "asc"}}}, {K: "take", X: Num("1")}}}
		},
	}
	c := conds[form%len(conds)]
	v := form / len(conds)
	kind := []string{"", "inner", "leftouter", "innerunique"}[v%4]
	p := &Pipe{Table: Ident{Name: "T"}}
	p.Ops = append(p.Ops, &Op{K: "join", Kind: kind, Right: rights[(v/4)%len(rights)](), Conds: []*E{c}})
	if (v/16)%2 == 0 {
		p.Ops = append(p.Ops, &Op{K: "project", Cols: []Col{{Name: &Ident{Name: "id"}}, {Name: &Ident{Name: "uid"}}}})
	} else {
		p.Ops = append(p.Ops, &Op{K: "count"})
	}
	return p
}

// functionNamedKeys: both sides rename their key to the name of a built-in
// function (a column may be called count, now, not, ...) and join on it as a
// bare key, alone and after another bare key.
func functionNamedKeys(form int) *Pipe {
	names := []string{"count", "countif", "now", "not", "iff", "iif", "isnull", "isnotnull", "strcat", "tolower", "toupper", "sum", "min", "coalesce"}
	n := names[form%len(names)]
	v := form / len(names)
	col := func(n, src string) Col { id := Ident{Name: n}; return Col{Name: &id, X: Name(src)} }
	bare := func(n string) Col { id := Ident{Name: n}; return Col{Name: &id} }
	left := &Op{K: "project", Cols: []Col{col(n, "k"), bare("j"), bare("id")}}
	right := &Pipe{Table: Ident{Name: "U"}, Ops: []*Op{{K: "project", Cols: []Col{col(n, "k"), bare("j"), bare("uid")}}}}
	conds := []*E{Name(n)}
	switch v % 3 {
	case 1:
		conds = []*E{Name("j"), Name(n)}
	case 2:
		conds = []*E{Name(n), Name("j")}
	}
	p := &Pipe{Table: Ident{Name: "T"}, Ops: []*Op{left}}
	kind := []string{"", "inner", "leftouter", "innerunique"}[(v/3)%4]
	p.Ops = append(p.Ops, &Op{K: "join", Kind: kind, Right: right, Conds: conds})
	if (v/12)%2 == 0 {
		p.Ops = append(p.Ops, &Op{K: "project", Cols: []Col{bare("id"), bare("uid")}})
	} else {
		p.Ops = append(p.Ops, &Op{K: "count"})
	}
	return p
}

// twinJoins: two joins whose right-hand pipelines are identical except for one
// function name, literal or comparison operator (same aliases, same shape).
func twinJoins(rng interface{ Intn(int) int }) *Pipe {
	variants := [][2]*E{
		{Call("tolower", Name("us")), Call("toupper", Name("us"))},
		{Call("isnull", Name("ub")), Call("isnotnull", Name("ub"))},
		{Bin("+", Name("ub"), Num("1")), Bin("+", Name("ub"), Num("2"))},
		{Bin("<", Name("ub"), Num("1")), Bin(">=", Name("ub"), Num("1"))},
		{Call("fi", Name("ub")), Call("fi2", Name("ub"))},
		{Call("strcat", Name("us"), StrLit("a", false)), Call("strcat", Name("us"), StrLit("b", false))},
		{Call("not", Call("isnull", Name("us"))), Call("isnull", Call("isnull", Name("us")))},
	}
	v := variants[rng.Intn(len(variants))]
	if rng.Intn(2) == 0 {
		v[0], v[1] = v[1], v[0]
	}
	right := func(x *E) *Pipe {
		return &Pipe{Table: Ident{Name: "U"}, Ops: []*Op{{K: "project", Cols: []Col{{Name: &Ident{Name: "uid"}}, {Name: &Ident{Name: "r"}, X: x}}}}}
	}
	kinds := []string{"", "inner", "leftouter", "innerunique"}
	cond := func() []*E { return []*E{Bin("==", Name("$left", "id"), Name("$right", "uid"))} }
	j1 := &Op{K: "join", Kind: kinds[rng.Intn(4)], Right: right(v[0]), Conds: cond()}
	p := &Pipe{Table: Ident{Name: "T"}, Ops: []*Op{{K: "project", Cols: []Col{{Name: &Ident{Name: "id"}}, {Name: &Ident{Name: "ia"}}}}}}
	if rng.Intn(2) == 0 {
		// the second join nested at the end of the first one's right-hand side
		inner := &Op{K: "join", Kind: "inner", Right: right(v[1]), Conds: []*E{Name("true")}}
		j1.Right.Ops = append(j1.Right.Ops, inner)
		j1.Conds = []*E{Name("true")}
		p.Ops = append(p.Ops, j1)
		return p
	}
	j2 := &Op{K: "join", Kind: kinds[rng.Intn(4)], Right: right(v[1]), Conds: cond()}
	p.Ops = append(p.Ops, j1, j2)
	if rng.Intn(2) == 0 {
		p.Ops = append(p.Ops, &Op{K: "count"})
	}
	return p
}

// distinctThenDuplicates: a left prefix whose rows are first made distinct
// (summarize, count) and then made alike again (a projection that drops the
// grouping key, an extend that overwrites it), with row-preserving operators
// in between, before a join of every kind.
func distinctThenDuplicates(rng interface{ Intn(int) int }) *Pipe {
	id := func(n string) *Ident { return &Ident{Name: n} }
	p := &Pipe{Table: Ident{Name: "T"}}
	keys := [][]Col{{{X: Name("k")}}, {{X: Name("k")}, {X: Name("j")}}, {{X: Name("K")}}, {{Name: id("g"), X: Bin("%", Name("id"), Num("3"))}}}[rng.Intn(4)]
	p.Ops = append(p.Ops, &Op{K: "summarize", Cols: []Col{{Name: id("n"), X: Call("count")}, {Name: id("m"), X: Call("max", Name("ia"))}}, HasBy: true, By: keys})
	for k := rng.Intn(3); k > 0; k-- {
		switch rng.Intn(5) {
		case 0:
			p.Ops = append(p.Ops, &Op{K: "where", X: Bin(">=", Name("n"), Num("1"))})
		case 1:
			p.Ops = append(p.Ops, &Op{K: "extend", Cols: []Col{{Name: id("e"), X: Bin("+", Name("n"), Num("1"))}}})
		case 2:
			p.Ops = append(p.Ops, &Op{K: "sort", Terms: []SortTerm{{X: Name("n")}, {X: Name("m")}}})
		case 3:
			p.Ops = append(p.Ops, &Op{K: "take", X: Num("100")})
		default:
			p.Ops = append(p.Ops, &Op{K: "as", Name: Ident{Name: "Grouped"}})
		}
	}
	switch rng.Intn(3) {
	case 0:
		p.Ops = append(p.Ops, &Op{K: "project", Cols: []Col{{Name: id("n")}}})
	case 1:
		p.Ops = append(p.Ops, &Op{K: "project", Cols: []Col{{Name: id("n")}, {Name: id("m2"), X: Bin(">", Name("m"), Num("0"))}}})
	default:
		p.Ops = append(p.Ops, &Op{K: "project", Cols: []Col{{Name: id("n"), X: Bin("%", Name("n"), Num("2"))}}})
	}
	kind := []string{"", "innerunique", "", "inner", "leftouter"}[rng.Intn(5)]
	right := &Pipe{Table: Ident{Name: "U"}}
	if rng.Intn(2) == 0 {
		right.Ops = append(right.Ops, &Op{K: "project", Cols: []Col{{Name: id("uid")}, {Name: id("uk"), X: Name("k")}}})
		p.Ops = append(p.Ops, &Op{K: "join", Kind: kind, Right: right, Conds: []*E{Bin("==", Name("$left", "n"), Name("$right", "uk"))}})
	} else {
		p.Ops = append(p.Ops, &Op{K: "join", Kind: kind, Right: right, Conds: []*E{Bin("==", Name("$left", "n"), Name("$right", "k"))}})
	}
	if rng.Intn(3) == 0 {
		p.Ops = append(p.Ops, &Op{K: "count"})
	}
	return p
}

// namedThenNarrowed: a result is named by `as` and the very next operators
// narrow or reorder the left side (take, top, sort + take, where, count,
// summarize) before a join whose right-hand side reads the named result: the
// name stands for the rows at the `as`, not for what follows it.
func namedThenNarrowed(rng interface{ Intn(int) int }) *Pipe {
	id := func(n string) *Ident { return &Ident{Name: n} }
	p := &Pipe{Table: Ident{Name: "T"}}
	switch rng.Intn(3) {
	case 0:
		p.Ops = append(p.Ops, &Op{K: "where", X: Bin(">=", Name("id"), Num("0"))})
	case 1:
		p.Ops = append(p.Ops, &Op{K: "project", Cols: []Col{{Name: id("id")}, {Name: id("k")}, {Name: id("j")}, {Name: id("ia")}}})
	}
	p.Ops = append(p.Ops, &Op{K: "as", Name: Ident{Name: "Named"}})
	switch rng.Intn(6) {
	case 0:
		p.Ops = append(p.Ops, &Op{K: "take", X: Num([]string{"0", "1", "2"}[rng.Intn(3)])})
	case 1:
		p.Ops = append(p.Ops, &Op{K: "top", X: Num([]string{"1", "2"}[rng.Intn(2)]), Terms: []SortTerm{{X: Name("id"), Dir: []string{"", "asc"}[rng.Intn(2)]}}})
	case 2:
		p.Ops = append(p.Ops, &Op{K: "sort", Terms: []SortTerm{{X: Name("id"), Dir: "desc"}}}, &Op{K: "take", X: Num("1")})
	case 3:
		p.Ops = append(p.Ops, &Op{K: "sort", Terms: []SortTerm{{X: Name("k")}, {X: Name("id")}}})
	case 4:
		p.Ops = append(p.Ops, &Op{K: "where", X: Bin(">", Name("k"), Num("0"))})
	default:
		p.Ops = append(p.Ops, &Op{K: "summarize", Cols: []Col{{Name: id("ia"), X: Call("max", Name("ia"))}}, HasBy: true, By: []Col{{X: Name("k")}, {X: Name("j")}}})
	}
	right := &Pipe{Table: Ident{Name: "Named"}}
	switch rng.Intn(3) {
	case 0:
		right.Ops = append(right.Ops, &Op{K: "project", Cols: []Col{{Name: id("rid"), X: Name("id")}, {Name: id("rk"), X: Name("k")}}})
	case 1:
		right.Ops = append(right.Ops, &Op{K: "project", Cols: []Col{{Name: id("rid"), X: Name("id")}, {Name: id("rk"), X: Name("j")}}}, &Op{K: "take", X: Num("100")})
	default:
		right.Ops = append(right.Ops, &Op{K: "summarize", Cols: []Col{{Name: id("rid"), X: Call("count")}}, HasBy: true, By: []Col{{Name: id("rk"), X: Name("k")}}})
	}
	kind := []string{"", "inner", "leftouter", "innerunique"}[rng.Intn(4)]
	if rng.Intn(3) == 0 {
		// the named result is read one join deeper: by a join inside the right-hand side
		right = &Pipe{Table: Ident{Name: "V"}, Ops: []*Op{
			{K: "project", Cols: []Col{{Name: id("vid")}, {Name: id("vk"), X: Name("k")}}},
			{K: "join", Kind: "inner", Right: right, Conds: []*E{Bin("==", Name("$left", "vk"), Name("$right", "rk"))}}}}
	}
	p.Ops = append(p.Ops, &Op{K: "join", Kind: kind, Right: right, Conds: []*E{Bin("==", Name("$left", "k"), Name("$right", "rk"))}})
	if rng.Intn(3) == 0 {
		p.Ops = append(p.Ops, &Op{K: "count"})
	}
	return p
}

// manyConditions: one join with n conditions (1..20), all of which hold for
// every pair of rows except one selective condition at a position that
// varies: a condition that gets lost makes the result larger.
func manyConditions(rng interface{ Intn(int) int }, n int) *Pipe {
	l := func(c string) *E { return Name("$left", c) }
	r := func(c string) *E { return Name("$right", c) }
	always := []*E{Bin(">=", l("id"), Num("0")), Bin(">", r("uid"), Un("-", Num("1"))), Bin("!=", l("id"), Un("-", Num("5"))), Bin("<", r("uid"), Num("1000")),
		Bin("<=", Un("-", Num("9")), l("id")), Call("not", Bin("==", r("uid"), Un("-", Num("2")))), Bin(">=", Bin("+", l("id"), r("uid")), Num("0")), Call("isnotnull", l("id"))}
	selective := []*E{Name("k"), Bin("==", l("k"), r("j")), Bin("==", l("id"), r("uid")), Bin("<", l("id"), r("uid")), Bin("==", l("ia"), r("ub"))}
	// the built-in constants are conditions too: false and null match nothing, true everything
	selective = append(selective, Name("false"), Name("null"), Bin("==", Num("1"), Num("2")))
	always = append(always, Name("true"))
	pos := rng.Intn(n)
	var conds []*E
	for i := 0; i < n; i++ {
		if i == pos {
			conds = append(conds, selective[rng.Intn(len(selective))])
		} else {
			conds = append(conds, always[(i*3+pos)%len(always)])
		}
	}
	p := &Pipe{Table: Ident{Name: "T"}}
	kind := []string{"", "inner", "leftouter", "innerunique"}[rng.Intn(4)]
	p.Ops = append(p.Ops, &Op{K: "join", Kind: kind, Right: &Pipe{Table: Ident{Name: "U"}}, Conds: conds})
	if rng.Intn(2) == 0 {
		p.Ops = append(p.Ops, &Op{K: "count"})
	}
	return p
}

// pairedConditions: two conditions over the same two column names: crosswise,
// the same one twice, one reversed, a bare key with its explicit spelling.
func pairedConditions(rng interface{ Intn(int) int }, form int) *Pipe {
	l := func(c string) *E { return Name("$left", c) }
	r := func(c string) *E { return Name("$right", c) }
	var conds []*E
	switch form {
	case 0:
		conds = []*E{Bin("==", l("k"), r("j")), Bin("==", l("j"), r("k"))}
	case 1:
		conds = []*E{Bin("==", l("j"), r("k")), Bin("==", l("k"), r("j")), Name("k")}
	case 2:
		conds = []*E{Bin("==", l("k"), r("j")), Bin("==", l("k"), r("j"))}
	case 3:
		conds = []*E{Bin("==", l("k"), r("j")), Bin("==", r("j"), l("k"))}
	case 4:
		conds = []*E{Name("k"), Bin("==", l("k"), r("k")), Name("j")}
	case 6:
		conds = []*E{Name("k"), Name("j"), Name("Null")}
	case 7:
		conds = []*E{Name("Null"), Name("k"), Name("j"), Name("k")}
	case 8:
		conds = []*E{Bin("==", l("k"), r("k")), Name("j"), Name("Null")}
	default:
		conds = []*E{Bin("==", r("k"), l("j")), Bin("==", r("j"), l("k"))}
	}
	p := &Pipe{Table: Ident{Name: "T"}}
	if rng.Intn(2) == 0 {
		p.Ops = append(p.Ops, &Op{K: "where", X: Bin(">=", Name("id"), Num("0"))})
	}
	kind := []string{"", "inner", "leftouter", "innerunique"}[rng.Intn(4)]
	p.Ops = append(p.Ops, &Op{K: "join", Kind: kind, Right: &Pipe{Table: Ident{Name: "U"}}, Conds: conds})
	if rng.Intn(2) == 0 {
		p.Ops = append(p.Ops, &Op{K: "count"})
	}
	return p
}

// oneSidedConditions: a key condition followed by two conditions that each
// mention one side only (a comparison with a literal, bare or under not(), a
// null test), in every order: form picks the ordered pair.
func oneSidedConditions(rng interface{ Intn(int) int }, form int) *Pipe {
	l := func(c string) *E { return Name("$left", c) }
	r := func(c string) *E { return Name("$right", c) }
	pool := []*E{Call("not", Bin("==", l("ia"), Num("1"))), Bin(">", r("ub"), Num("0")), Bin("==", l("j"), Num("1")), Call("not", Call("isnull", r("j"))), Bin("!=", r("ub"), Num("0")), Call("isnull", l("ia"))}
	a := form % 6
	b := (a + 1 + form/6) % 6
	conds := []*E{Name("k"), pool[a], pool[b]}
	if rng.Intn(3) == 0 {
		conds = []*E{pool[a], Name("k"), pool[b]}
	}
	p := &Pipe{Table: Ident{Name: "T"}}
	kind := []string{"", "inner", "leftouter", "innerunique"}[rng.Intn(4)]
	p.Ops = append(p.Ops, &Op{K: "join", Kind: kind, Right: &Pipe{Table: Ident{Name: "U"}}, Conds: conds})
	if rng.Intn(2) == 0 {
		p.Ops = append(p.Ops, &Op{K: "count"})
	}
	return p
}

// orientedComparison: a key plus one comparison between the sides, every
// operator in both orientations ($left first, $right first), bare and under not().
func orientedComparison(rng interface{ Intn(int) int }, form int) *Pipe {
	ops := []string{"==", "!=", "<", "<=", ">", ">="}
	op := ops[form%6]
	a, b := Name("$left", "ia"), Name("$right", "ub")
	if form/6%2 == 1 {
		a, b = b, a
	}
	c := Bin(op, a, b)
	if form/12 == 1 && op != "==" {
		c = Call("not", c)
	}
	p := &Pipe{Table: Ident{Name: "T"}}
	kind := []string{"", "inner", "leftouter", "innerunique"}[rng.Intn(4)]
	conds := []*E{Name("k"), c}
	if rng.Intn(3) == 0 {
		conds = []*E{c}
	}
	p.Ops = append(p.Ops, &Op{K: "join", Kind: kind, Right: &Pipe{Table: Ident{Name: "U"}}, Conds: conds})
	if rng.Intn(2) == 0 {
		p.Ops = append(p.Ops, &Op{K: "count"})
	}
	return p
}

// joinThenNarrowedCount: a join followed by operators that narrow or reorder
// its result (take, top, sort + take, where) and then count as the last
// operator: the count is over what those operators leave.
func joinThenNarrowedCount(rng interface{ Intn(int) int }, form int) *Pipe {
	p := &Pipe{Table: Ident{Name: "T"}}
	if rng.Intn(2) == 0 {
		p.Ops = append(p.Ops, &Op{K: "where", X: Bin(">=", Name("id"), Num("0"))})
	}
	kind := []string{"", "inner", "leftouter", "innerunique"}[rng.Intn(4)]
	p.Ops = append(p.Ops, &Op{K: "join", Kind: kind, Right: &Pipe{Table: Ident{Name: "U"}}, Conds: []*E{Name("k")}})
	switch form {
	case 0:
		p.Ops = append(p.Ops, &Op{K: "take", X: Num("1")})
	case 1:
		p.Ops = append(p.Ops, &Op{K: "take", X: Num("0")})
	case 2:
		p.Ops = append(p.Ops, &Op{K: "top", X: Num("2"), Terms: []SortTerm{{X: Name("id")}}})
	case 3:
		p.Ops = append(p.Ops, &Op{K: "sort", Terms: []SortTerm{{X: Name("uid"), Dir: "asc"}}}, &Op{K: "take", X: Num("2")})
	case 4:
		p.Ops = append(p.Ops, &Op{K: "where", X: Bin(">", Name("ub"), Num("0"))})
	case 5:
		p.Ops = append(p.Ops, &Op{K: "take", X: Num("3")}, &Op{K: "take", X: Num("1")})
	case 6:
		p.Ops = append(p.Ops, &Op{K: "sort", Terms: []SortTerm{{X: Name("id")}}})
	default:
		p.Ops = append(p.Ops, &Op{K: "summarize", Cols: []Col{{Name: &Ident{Name: "n"}, X: Call("count")}}, HasBy: true, By: []Col{{X: Name("ub")}}})
	}
	p.Ops = append(p.Ops, &Op{K: "count"})
	return p
}

// summarizeThenNestedJoin: the prefix ends in summarize or count right before a
// join whose right-hand side starts with a join of its own (default kind).
func summarizeThenNestedJoin(rng interface{ Intn(int) int }) *Pipe {
	p := &Pipe{Table: Ident{Name: "T"}}
	if rng.Intn(2) == 0 {
		p.Ops = append(p.Ops, &Op{K: "summarize", Cols: []Col{{Name: &Ident{Name: "n"}, X: Call("count")}}, HasBy: true, By: []Col{{X: Name("k")}}})
	} else {
		p.Ops = append(p.Ops, &Op{K: "project", Cols: []Col{{Name: &Ident{Name: "k"}}}}, &Op{K: "summarize", HasBy: true, By: []Col{{X: Name("k")}}})
	}
	kinds := []string{"", "innerunique", "", "inner", "leftouter"}
	inner := &Op{K: "join", Kind: kinds[rng.Intn(5)], Right: &Pipe{Table: Ident{Name: "V"}, Ops: []*Op{{K: "project", Cols: []Col{{Name: &Ident{Name: "vid"}}, {Name: &Ident{Name: "vk"}, X: Name("k")}}}}},
		Conds: []*E{Bin("==", Name("$left", "j"), Name("$right", "vk"))}}
	rightPipe := &Pipe{Table: Ident{Name: "U"}, Ops: []*Op{inner}}
	if rng.Intn(3) == 0 {
		// duplicate rows on the nested join's left side come from a projection that drops the unique column
		rightPipe = &Pipe{Table: Ident{Name: "U"}, Ops: []*Op{{K: "project", Cols: []Col{{Name: &Ident{Name: "j"}}, {Name: &Ident{Name: "k"}}}}, inner}}
	}
	outer := &Op{K: "join", Kind: kinds[rng.Intn(5)], Right: rightPipe, Conds: []*E{Bin("==", Name("$left", "k"), Name("$right", "vk"))}}
	if rng.Intn(3) == 0 {
		// the grouping column itself as a bare key, against a plain table
		outer = &Op{K: "join", Kind: kinds[rng.Intn(5)], Right: &Pipe{Table: Ident{Name: "V"}}, Conds: []*E{Name("k")}}
	}
	p.Ops = append(p.Ops, outer)
	if rng.Intn(2) == 0 {
		p.Ops = append(p.Ops, &Op{K: "count"})
	}
	return p
}
