// Package c12: scanning, parsing and compiling are total: no panic, no hang.
package c12

import (
	"encoding/json"
	"fmt"
	"math"
	"strings"
	"verif/harness/exprpos"
	"verif/harness/props/c04"
	"verif/harness/props/c13"

	"github.com/runreveal/pql/parser"

	"verif/harness/gen"
	"verif/harness/mon"
	"verif/harness/pqlref"
)

// Budget of hook steps for one API call on an input of at most 4 KiB.
// Calibrated: the largest count observed over the pathological families is
// reported in the evidence (max.steps); the budget is kept >= 50x that.
const stepBudget = 2_000_000_000

func init() {
	mon.Register(&mon.Prop{
		ID:       "C12",
		Generate: generate,
		Replay: func(raw json.RawMessage, r *mon.R) {
			var ms mon.Str
			json.Unmarshal(raw, &ms)
			s := string(ms)
			mon.StepBudget = stepBudget
			Check(s, r)
		},
		Rule: "inputs: 80 pathological families (nesting, towers, chains, error cascades, runs) at 1, 2 and 4 KiB, the hand corpus, seeded random bytes and token soups up to 4 KiB, " +
			"and a site-guided mutation corpus (token- and byte-level edits, splices) grown per worker; each input goes through Scan, SplitStatements, Parse, Walk of every statement, " +
			"Compile and Compile with a parameter map. oracle: no panic; at most 2e9 hook steps per call (non-advancing loop); worker watchdog (150 CPU-s per case summed over all threads, confirmed by a solo re-run; 768 MiB live heap) " +
			"and address-space limit for loops and allocations without a hook. non-trivial = distinct input of at least two tokens",
		FloorQuick: 20_000, FloorThorough: 500_000,
		AnomalyIsViolation: true,
		AnomalyKnownKey:    KnownKey,
		CaseCPUBudget:      150,
		HeapBudget:         768 << 20,
		Assumptions: []string{
			"'within seconds' is restated as: <= 2e9 instrumented loop steps per call, <= 150 CPU-seconds (all threads, six API calls) and <= 768 MiB live heap per input of <= 4 KiB; a CPU overrun must repeat in a solo re-run",
			"workers run under a 4 GiB address-space limit; exhausting it is recorded as a crash of the open case",
		},
	})
}

// LetAmplification predicts, from the source text alone, the size factor of
// eager let substitution: the largest number of leaf tokens a let-bound name
// expands to.
func LetAmplification(src string) float64 {
	toks := pqlref.Tokens(src)
	size := map[string]float64{}
	max := 1.0
	i := 0
	for i < len(toks) {
		// statement = tokens up to the next semicolon
		j := i
		for j < len(toks) && toks[j].Kind != parser.TokenSemi {
			j++
		}
		st := toks[i:j]
		if len(st) >= 3 && st[0].Kind == parser.TokenIdentifier && st[0].Val == "let" && st[1].Kind == parser.TokenIdentifier && st[2].Kind == parser.TokenAssign {
			total := 0.0
			for _, t := range st[3:] {
				if t.Kind == parser.TokenIdentifier {
					if sz, ok := size[t.Val]; ok {
						total += sz
						continue
					}
				}
				total++
			}
			size[st[1].Val] = total
			if total > max {
				max = total
			}
		}
		i = j + 1
	}
	return max
}

// KnownKey maps an input to the key of the known finding it reproduces.
func KnownKey(src string) string {
	if LetAmplification(src) >= math.Pow(2, 20) {
		return "let-amplification"
	}
	return ""
}

func generate(w *mon.W) {
	mon.StepBudget = stepBudget
	mon.LimitMemory(4 << 30)
	do := func(s string) {
		w.Do(s, func(r *mon.R) { Check(s, r) })
	}
	for _, size := range []int{64, 1024, 2048, 4096} {
		for _, p := range gen.Patho(size) {
			if w.Owns(p.Src) {
				w.SetAdd("pathological_families", p.Name)
			}
			do(p.Src)
		}
	}
	// every family once more as one statement among several (the paths taken
	// when a program is rejected as a whole: batch queries, lets after the query)
	for _, size := range []int{64, 1024} {
		for _, p := range gen.Patho(size) {
			do("T; " + p.Src)
			do(p.Src + "; T | count")
			do("let q = 1; " + p.Src + "; let r = q")
		}
	}
	// tokens made of multi-byte characters, in every length around the
	// widths a message or a buffer may be cut at, where an error names them
	for _, ch := range []string{"a", "é", "日", "😊", "\xff"} {
		for _, n := range []int{1, 2, 3, 7, 8, 9, 10, 11, 12, 13, 15, 16, 17, 23, 24, 25, 31, 32, 33, 63, 64, 65} {
			body := strings.Repeat(ch, n)
			for _, tok := range []string{"'" + body + "'", "\"" + body + "\"", "`" + body + "`", body} {
				for _, tmpl := range []string{"T | take %s", "T | %s", "%s | where", "T | where a %s", "T | join kind=%s (U) on k", "T | render x with (%s)", "let %s", "T | where f(%s", "T | sort by a %s", "T | as %s %s", "T | project a = %s %s"} {
					do(strings.ReplaceAll(tmpl, "%s", tok))
				}
			}
		}
	}
	// long tokens that end in a run of bytes which are not character starts
	// (UTF-8 continuation bytes, invalid bytes), terminated and not, where an
	// error message names or abbreviates them
	for _, tail := range []string{"\x80", "\xbf", "\xa0", "\xff", "\xc3", "\xe2\x80"} {
		for _, k := range []int{1, 3, 39, 40, 41, 64, 100} {
			for _, pre := range []int{0, 1, 43, 44, 45, 100, 300} {
				body := strings.Repeat("a", pre) + strings.Repeat(tail, k)
				for _, tok := range []string{"'" + body, "\"" + body, "`" + body, "'" + body + "'", "`" + body + "`", body} {
					for _, tmpl := range []string{"T | take %s", "T | where a == %s\n| count", "T | %s", "let x = %s", "T | join kind=%s (U) on k"} {
						do(strings.ReplaceAll(tmpl, "%s", tok))
					}
				}
			}
		}
	}
	seeds := gen.Seeds()
	for _, s := range seeds {
		do(s)
	}
	// every token of every corpus program replaced by a degenerate one: an empty
	// quoted name, empty strings, empty brackets, nothing
	for _, s := range append(append([]string{}, seeds...),
		"X | join kind=leftouter (Y | project a, b) on a, $left.b == $right.b | where f(a.b, c[1]) | render pie with (t = x.y)",
		"let n = a.b; T | summarize c = count() by k.j, m = x % 2 | sort by k.j desc | as R | project R.k, z = -q.r") {
		parts := gen.Lexemes(s)
		if len(parts) > 80 {
			continue
		}
		for i := range parts {
			for _, rep := range []string{"``", "''", "\"\"", "()", "[]", "", "``.b", "a.``", "`` ``"} {
				t := append([]string{}, parts...)
				t[i] = rep
				do(strings.Join(t, " "))
			}
		}
	}
	for _, kind := range gen.WideKinds {
		for _, n := range append(append([]int{}, gen.WideSizes...), gen.WideSizesBig...) {
			do(pqlref.Print(gen.Wide(kind, n), pqlref.Layout{Mode: 1}).Src)
		}
	}
	// every parameter name of the parameter maps used at every kind of position
	names := map[string]bool{}
	for _, pm := range gen.ParamMaps {
		for k := range pm {
			names[k] = true
		}
	}
	for k := range names {
		for _, tmpl := range []string{"let z = %s; T | take 1", "let z = %s; T | where a == z", "let z = -%s; T | where z[1] == -z", "T | where a == %s", "T | where a == -%s", "T | take %s", "T | top %s by a",
			"T | extend %s", "T | project %s", "T | where %s[1] == 2", "T | join (U) on $left.a == %s", "T | summarize count() by %s", "T | sort by %s", "T | where strcat(%s, %s) in (%s)", "T | where not(%s) and isnull(%s)"} {
			do(strings.ReplaceAll(tmpl, "%s", k))
		}
	}
	// the workloads of the other checks, for totality: whatever any check feeds
	// the code is also fed here, where a panic or a hang is the verdict
	{
		urng := gen.RNG(w.Seed, "c12union")
		nU := w.Pick(2_500, 120_000)
		sg := &gen.Syn{Rng: urng}
		for i := 0; i < nU && !w.Stopped(); i++ {
			do(pqlref.Print(gen.SynProgram(sg, i), gen.LayoutFor(int64(i), i%3)).Src)
		}
		for i := 0; i < nU && !w.Stopped(); i++ {
			g := &gen.ExprGen{Rng: urng, Cols: gen.DefaultCols(), IllTyped: 8, Agg: i%7 == 0}
			pos := exprpos.Positions[i%len(exprpos.Positions)]
			if pos == "let" || pos == "let-chain" {
				g.NoCols = true
			}
			x := g.Gen(gen.Ty(urng.Intn(3)), 1+urng.Intn(6))
			if pos == "join-on" || pos == "join-on-nested" {
				x = exprpos.Joinify(x, nil, urng)
			}
			do(pqlref.Print(exprpos.Build(pos, pqlref.Parenthesize(x, func() bool { return urng.Intn(5) == 0 })), pqlref.Layout{Mode: 0}).Src)
		}
		vg := &gen.Valid{Rng: urng}
		for i := 0; i < nU/2 && !w.Stopped(); i++ {
			do(pqlref.Print(vg.Program(), pqlref.Layout{Mode: 0}).Src)
		}
		kinds := append(append([]string{}, gen.Kinds...), "join", "join")
		for i := 0; i < nU/2 && !w.Stopped(); i++ {
			var seq []string
			for k := 1 + urng.Intn(7); k > 0; k-- {
				seq = append(seq, kinds[urng.Intn(len(kinds))])
			}
			pg := &gen.PipeGen{Rng: urng, DetSort: 50}
			p, _ := pg.Pipe("T", seq, 2)
			do(pqlref.Print(&pqlref.Program{Stmts: []*pqlref.Stmt{{Pipe: p}}}, gen.LayoutFor(int64(i), i%3)).Src)
		}
		for i := 0; i < nU && !w.Stopped(); i++ {
			var sb strings.Builder
			for n := 1 + urng.Intn(30); n > 0; n-- {
				sb.WriteString(gen.Lexicon[urng.Intn(len(gen.Lexicon))])
				if urng.Intn(2) == 0 {
					sb.WriteString([]string{" ", "\n", "\t", " // x\n", ""}[urng.Intn(5)])
				}
			}
			do(sb.String())
		}
		// programs with one planted misuse each (wrong argument counts at every
		// depth, misplaced $left/$right, bad lets, unknown join kinds, bad row counts)
		for _, src := range c13.PlantedSources(w.Seed, w.Pick(3_000, 100_000)) {
			do(src)
		}
		// every built-in with 0..4 arguments as the argument of every built-in
		{
			bi := []string{"not", "isnull", "isnotnull", "iff", "iif", "strcat", "tolower", "toupper", "now", "count", "countif", "f"}
			for _, inner := range bi {
				for n := 0; n <= 4; n++ {
					call := inner + "(" + strings.TrimSuffix(strings.Repeat("a, ", n), ", ") + ")"
					for _, outer := range bi {
						do("T | where " + outer + "(" + call + ")")
						do("T | extend x = " + outer + "(1, " + call + ") | summarize " + outer + "(" + call + ", 2) by k")
					}
					do("let v = " + call + "; T | where -" + call + "[" + call + "] in (" + call + ")")
				}
			}
		}
		// constant arithmetic at the edges: every operator between boundary values,
		// as a let value, a predicate, a row count and an index
		{
			edge := []string{"0", "1", "2", "7", "9223372036854775807", "9223372036854775808", "18446744073709551615", "18446744073709551616", "4294967296", "0.0", "1e308", "0x10"}
			for _, a := range edge {
				for _, b := range edge {
					for _, op := range []string{"+", "-", "*", "/", "%"} {
						for _, sg := range []string{"", "-"} {
							x := sg + a + " " + op + " " + sg + b
							do("let k = " + x + "; T | take k")
							do("let k = (" + x + ") " + op + " (5 - 5); T | where a == k | extend m[k]")
							do("T | where a == " + x + " | take " + x)
						}
					}
				}
			}
		}
		for _, src := range gen.NameCollisionSources() {
			do(src)
		}
		for _, src := range c04.SkeletonSources() {
			do(src)
		}
		// deep chains of one-argument calls, one-element lists and parentheses as
		// an operand of a comparison in a join condition and under not()
		for _, d := range []int{20, 24, 28, 32, 40, 64, 200, 1000} {
			for _, wrap := range [][2]string{{"tolower(", ")"}, {"f(", ")"}, {"(", ")"}, {"not(", ")"}, {"x in (", ")"}, {"m[", "]"}, {"-(", ")"}} {
				chain := strings.Repeat(wrap[0], d) + "$right.b" + strings.Repeat(wrap[1], d)
				do("T | join kind=inner (U) on $left.a == " + chain)
				do("T | join (U) on " + chain + " == $left.a, not(" + chain + " == 1)")
				do("T | join kind=leftouter (U) on k, " + strings.Repeat(wrap[0], d) + "$left.a + $right.b" + strings.Repeat(wrap[1], d) + " == 0")
			}
		}
		// every operator keyword with every lexeme glued to it, at the end of the
		// pipeline and before another operator
		for _, kw := range []string{"where", "filter", "project", "extend", "summarize", "sort", "order", "take", "limit", "top", "count", "join", "as", "render"} {
			for _, lx := range gen.Lexicon {
				do("T | " + kw + lx)
				do("T | " + kw + lx + " | count")
				do("T | " + kw + " " + lx + " by")
			}
		}
		// every sequence of binary operators, unparenthesized, at three depths
		// (the parser's precedence loop is re-entered once per looser/tighter step)
		{
			bops := []string{"or", "and", "==", "!=", "<", ">=", "+", "-", "*", "/", "%", "in", "=~", "!~"}
			operands := []string{"a", "b", "1", "x.y", "f(c)", "-d", "'s'", "m[0]"}
			var rec func(prefix string, depth, k int)
			rec = func(prefix string, depth, k int) {
				if depth == 0 {
					do("T | where " + prefix)
					do("let v = " + prefix + "; T | extend q = (" + prefix + ") | summarize count() by " + prefix)
					return
				}
				for _, op := range bops {
					if op == "in" {
						rec(prefix+" in ("+operands[k%len(operands)]+", 2)", depth-1, k+1)
						rec(prefix+" in (true)", depth-1, k+1)
					} else {
						rec(prefix+" "+op+" "+operands[k%len(operands)], depth-1, k+1)
					}
				}
			}
			for d := 1; d <= w.Pick(3, 4); d++ {
				rec("a", d, 1)
				rec("not(b)", d, 3)
			}
		}
		for _, lit := range append(append([]string{}, gen.IntSpellings...), gen.Lexicon...) {
			for _, tmpl := range []string{"T | take %s", "T | where a == -%s", "let n = %s; T | top n by a", "T | where m[%s] == 1", "T | extend %s", "T | where %s", "T | sort by %s desc | project %s", "%s"} {
				do(strings.ReplaceAll(tmpl, "%s", lit))
			}
		}
	}
	// The known finding: exponential let expansion (demonstrated, expected to
	// take the worker down; the coordinator attributes it by key).
	do("let a = 1;" + strings.Repeat("let a = a + a;", 40) + "T | where a")

	rng := gen.RNG(w.Seed, fmt.Sprintf("c12/%d", w.Shard))
	corpus := gen.NewCorpus(seeds, 4000)
	n := w.Pick(60_000, 4_000_000) / w.NShards
	for i := 0; i < n && !w.Stopped(); i++ {
		var s string
		switch {
		case i%20 == 0:
			s = gen.RandomBytes(rng, 1+rng.Intn([]int{16, 64, 300, 4096}[rng.Intn(4)]))
		case i%20 == 1:
			s = gen.Soup(rng, 1+rng.Intn([]int{40, 200, 1000, 4096}[rng.Intn(4)]))
		default:
			s = corpus.Mutant(rng)
		}
		w.DoOwned(s, func(r *mon.R) {
			mon.ResetSig()
			Check(s, r)
			if !r.Violated() {
				if corpus.Offer(s, mon.Sig()) {
					r.Count("corpus_growth", 1)
				}
			}
		})
	}
	w.Count("coverage_signatures", int64(corpus.Signatures()))
}

// Check runs every entry point on one input.
func Check(s string, r *mon.R) {
	r.Case = mon.Str(s)
	kk := KnownKey(s)
	fail := func(what string, o mon.Out) {
		r.Violation(kk, "%s on a %d-byte input: %s\n%s", what, len(s), o.String(), o.Stack)
	}
	toks, o := mon.Scan(s)
	r.MaxOf("steps_scan", o.Steps)
	if o.Anomalous() {
		fail("Scan", o)
		return
	}
	_, o = mon.Split(s)
	if o.Anomalous() {
		fail("SplitStatements", o)
		return
	}
	stmts, err, o := mon.Parse(s)
	r.MaxOf("steps_parse", o.Steps)
	if o.Anomalous() {
		fail("Parse", o)
		return
	}
	if err == nil {
		for _, st := range stmts {
			n := 0
			o = mon.Walk(st, func(parser.Node) bool { n++; return true })
			r.MaxOf("steps_walk", o.Steps)
			if o.Anomalous() {
				fail(fmt.Sprintf("Walk(%T)", st), o)
				return
			}
		}
		r.Count("parsed_ok", 1)
	} else if o2 := mon.Guarded(func() { _ = err.Error() }); o2.Anomalous() {
		fail("Error() of the parse error", o2)
		return
	}
	sql, cerr, o := mon.Compile(s, nil)
	r.MaxOf("steps_compile", o.Steps)
	if o.Anomalous() {
		fail("Compile", o)
		return
	}
	if cerr == nil {
		r.Count("compiled_ok", 1)
		r.MaxOf("sql_bytes", int64(len(sql)))
	} else if o2 := mon.Guarded(func() { _ = cerr.Error() }); o2.Anomalous() {
		fail("Error() of the compile error", o2)
		return
	}
	sqlz, zerr, o := mon.CompileZero(s)
	if o.Anomalous() {
		fail("Compile with zero-value options", o)
		return
	}
	if (zerr == nil) != (cerr == nil) || sqlz != sql {
		// judged by C14; recorded here only
		r.Count("zero_options_differ_from_nil", 1)
	}
	pms := []map[string]string{gen.ParamMaps[1+int(hash(s)%uint32(len(gen.ParamMaps)-1))]}
	if len(s) < 200 {
		pms = gen.ParamMaps[1:] // short inputs: every parameter map
	}
	for _, pm := range pms {
		_, _, o = mon.Compile(s, pm)
		if o.Anomalous() {
			fail(fmt.Sprintf("Compile with parameters %q", pm), o)
			return
		}
	}
	r.MaxOf("input_bytes", int64(len(s)))
	if len(toks) >= 2 {
		r.Nontrivial()
		if len(s) < 80 && len(toks) > 4 {
			r.Sample(map[string]any{"input": s, "tokens": len(toks), "parse_ok": err == nil, "compile_ok": cerr == nil})
		}
	}
}

func hash(s string) uint32 {
	h := uint32(2166136261)
	for i := 0; i < len(s); i++ {
		h = (h ^ uint32(s[i])) * 16777619
	}
	return h
}
