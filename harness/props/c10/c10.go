// Package c10: source positions in tokens and syntax trees are exact.
package c10

import (
	"encoding/json"
	"fmt"
	"reflect"
	"regexp"
	"strconv"
	"strings"
	"unicode/utf8"

	"github.com/runreveal/pql/parser"

	"verif/harness/gen"
	"verif/harness/mon"
	. "verif/harness/pqlref"
)

// Case: a program printed in one layout (exact part), or a raw source (error part).
type Case struct {
	Prog *Program `json:"prog,omitempty"`
	Mode int      `json:"mode"`
	Seed int64    `json:"seed"`
	Raw  *mon.Str `json:"raw,omitempty"`
}

func init() {
	mon.Register(&mon.Prop{
		ID:       "C10",
		Generate: generate,
		Replay: func(raw json.RawMessage, r *mon.R) {
			var c Case
			json.Unmarshal(raw, &c)
			Check(&c, r)
		},
		Rule: "exact part: seeded random programs of the whole grammar printed in single-space, tight and random multi-line/tab/comment/Unicode-space layouts; the printer knows every token's byte range, " +
			"so the returned tree is compared with the expected tree including every span field; by reflection every node's Span() must equal the extent of the spans below it, siblings must be ordered, " +
			"every span must lie on token boundaries, and name/literal spans must re-scan to that name/literal. error part: token- and byte-level corruptions of the same sources; every reachable span is invalid or inside the source, " +
			"Span() methods do not panic, and every line:col prefix of Parse/Compile error text is the image of a byte offset under an independent line/column function. " +
			"non-trivial = distinct source with at least three operator nodes (exact part) or an error text with a position (error part)",
		FloorQuick: 20_000, FloorThorough: 300_000,
		Assumptions: []string{"the generator's grammar is Appendix A of DESIGN.md", "implicit column names are checked by C02/C05 against the emitted SQL, not here"},
	})
}

func generate(w *mon.W) {
	rng := gen.RNG(w.Seed, "c10")
	g := &gen.Syn{Rng: rng}
	n := w.Pick(12_000, 250_000)
	const head = "T | where s == \""
	for _, boundary := range []int{32, 64, 128, 256, 512, 1024, 2048, 4096, 8192, 16384} {
		for start := boundary - 6; start <= boundary+2; start++ {
			for _, ch := range []string{"é", "日", "😊"} {
				for _, tail := range []string{"\" | bogus", "\" )", "\"\n| where (", "' + ", "éé\" | take 1.5"} {
					// the multi-byte character starts at byte offset `start`
					s := head + strings.Repeat("a", start-len(head)) + ch + tail
					ms := mon.Str(s)
					c := &Case{Raw: &ms}
					w.Do("long|"+s, func(r *mon.R) { Check(c, r) })
				}
			}
		}
	}
	// calls of dialect functions with arithmetic, dates and durations as arguments
	for _, s := range []string{"T | where ts > datetime(2024 - skew * 60) and d == date(1999 - a)", "T | where ts > datetime(2024-01-15) | extend t = ago(5 - m), u = bin(ts, 3600) | count",
		"T\n| extend datetime(1-2-3), x = datetime( 2024-01-15 )\n| where not -1 > 0 and a --1 > 0", "T | summarize count() by (a), (b) | where x not in (1)"} {
		ms := mon.Str(s)
		c := &Case{Raw: &ms}
		w.Do("dial|"+s, func(r *mon.R) { Check(c, r) })
	}
	// one token text several times in one source (each occurrence has its own place)
	for _, s := range gen.RepeatedTokenSources() {
		ms := mon.Str(s)
		c := &Case{Raw: &ms}
		w.Do("rep|"+s, func(r *mon.R) { Check(c, r) })
	}
	mrng := gen.RNG(w.Seed, "c10mut")
	for _, kind := range gen.WideKinds {
		for _, n := range gen.WideSizes {
			if n > 130 && w.Quick() {
				continue
			}
			prog := gen.Wide(kind, n)
			for mode := 0; mode < 3; mode += 2 {
				c := &Case{Prog: prog, Mode: mode, Seed: int64(n)}
				w.Do(fmt.Sprint("wide|", kind, "|", n, "|", mode), func(r *mon.R) { Check(c, r) })
			}
		}
	}
	for i := 0; i < n && !w.Stopped(); i++ {
		prog := gen.SynProgram(g, i)
		seed := rng.Int63()
		for mode := 0; mode < 3; mode++ {
			c := &Case{Prog: prog, Mode: mode, Seed: seed}
			src := Print(prog, gen.LayoutFor(seed, mode)).Src
			w.Do("p|"+src, func(r *mon.R) { Check(c, r) })
			if mode == 0 && i%8 == 0 {
				// an unusual character glued to the very start or end of the source
				// (a byte order mark, white space outside ASCII, control characters)
				for _, ch := range []string{"\ufeff", "\u00a0", "\u2003", "\r", "\v", "\f", "\x00", "\ufffd", "\u2028", "\xef\xbb", "\xff"} {
					for _, m := range []string{ch + src, src + ch, ch + ch + src} {
						mm := mon.Str(m)
						cm := &Case{Raw: &mm}
						w.Do("r|"+m, func(r *mon.R) { Check(cm, r) })
					}
				}
			}
			if mode != 1 {
				// corrupted variants for the error part
				for k := 0; k < 2; k++ {
					var m string
					if k == 0 {
						m = gen.MutateTokens(mrng, src)
					} else {
						m = gen.MutateBytes(mrng, src)
					}
					mm := mon.Str(m)
					cm := &Case{Raw: &mm}
					w.Do("r|"+m, func(r *mon.R) { Check(cm, r) })
				}
			}
		}
	}
}

var posRe = regexp.MustCompile(`^(\d+):(\d+): `)

// checkErrorText verifies the line:col prefixes of an error text.
func checkErrorText(src, text string, what string, r *mon.R) bool {
	type lc struct{ l, c int }
	img := map[lc]bool{}
	// one pass: the (line, column) of every byte offset, as LineCol defines it
	// (an offset inside a multi-byte character sees its leading bytes as one
	// column each)
	{
		l, c := 1, 1
		for i := 0; i < len(src); {
			r, size := utf8.DecodeRuneInString(src[i:])
			img[lc{l, c}] = true
			for k := 1; k < size; k++ {
				img[lc{l, c + k}] = true
			}
			switch {
			case r == '\n':
				l, c = l+1, 1
			case r == '\t':
				c = ((c-1)/8+1)*8 + 1
			default:
				c++
			}
			i += size
		}
		img[lc{l, c}] = true
	}
	seen := false
	for _, line := range strings.Split(text, "\n") {
		line = strings.TrimPrefix(line, "parse pipeline query language: ")
		m := posRe.FindStringSubmatch(line)
		if m == nil {
			continue
		}
		l, _ := strconv.Atoi(m[1])
		c, _ := strconv.Atoi(m[2])
		seen = true
		if !img[lc{l, c}] {
			r.Violation("", "%s(%q): error message %q points to %d:%d, which is not a position in the source", what, src, line, l, c)
			return false
		}
	}
	if seen {
		r.Count("error_positions_checked", 1)
	}
	return true
}

// checkNodes: reflection checks shared by both parts. exact=false only
// demands validity/range.
func checkNodes(src string, stmts []parser.Statement, exact bool, r *mon.R) bool {
	var starts, ends map[int]bool
	if exact {
		starts, ends = map[int]bool{}, map[int]bool{}
		for _, t := range Tokens(src) {
			starts[t.Start] = true
			ends[t.End] = true
		}
	}
	for si, s := range stmts {
		for _, sp := range Spans(s) {
			if !sp.Span.IsValid() {
				continue
			}
			if sp.Span.End > len(src) {
				r.Violation("", "Parse(%q): statement %d %s = %v lies outside the %d-byte source", src, si, sp.Path, sp.Span, len(src))
				return false
			}
			if exact && (!starts[sp.Span.Start] || !ends[sp.Span.End]) {
				r.Violation("", "Parse(%q): statement %d %s = %v %q does not start and end on token boundaries", src, si, sp.Path, sp.Span, src[sp.Span.Start:sp.Span.End])
				return false
			}
		}
		for _, n := range Reach(s) {
			var got parser.Span
			if o := mon.Guarded(func() { got = n.Node.Span() }); o.Anomalous() {
				r.Violation("", "Parse(%q): %s.Span() %s", src, n.TypeName, o.String())
				return false
			}
			r.SetAdd("node_types_checked", n.TypeName)
			if got.IsValid() && got.End > len(src) {
				r.Violation("", "Parse(%q): %s.Span() = %v lies outside the source", src, n.TypeName, got)
				return false
			}
			if !exact {
				continue
			}
			want := Extent(n.Node)
			if got != want {
				r.Violation("", "Parse(%q): %s.Span() = %v but its parts extend over %v", src, n.TypeName, got, want)
				return false
			}
			// names and literals re-scan to themselves
			switch x := n.Node.(type) {
			case *parser.Ident:
				t := Tokens(src[x.NameSpan.Start:x.NameSpan.End])
				okk := len(t) == 1 && t[0].Val == x.Name && (t[0].Kind == parser.TokenQuotedIdentifier) == x.Quoted &&
					(t[0].Kind == parser.TokenIdentifier || t[0].Kind == parser.TokenQuotedIdentifier)
				if !okk {
					r.Violation("", "Parse(%q): identifier %q (quoted=%v) has span %v = %q, which is not that identifier", src, x.Name, x.Quoted, x.NameSpan, src[x.NameSpan.Start:x.NameSpan.End])
					return false
				}
			case *parser.BasicLit:
				t := Tokens(src[x.ValueSpan.Start:x.ValueSpan.End])
				okk := len(t) == 1 && t[0].Kind == x.Kind
				if okk && x.Kind == parser.TokenString {
					okk = t[0].Val == x.Value
				}
				if okk && x.Kind == parser.TokenNumber {
					v, ok := NumberValue(x.Value)
					okk = ok && v.Equal(t[0].Num)
				}
				if !okk {
					r.Violation("", "Parse(%q): literal %q has span %v = %q, which is not that literal", src, x.Value, x.ValueSpan, src[x.ValueSpan.Start:x.ValueSpan.End])
					return false
				}
			}
		}
		if exact && !siblingsOrdered(src, reflect.ValueOf(s), r) {
			return false
		}
	}
	return true
}

// siblingsOrdered: in every slice of nodes, each element's extent ends before
// the next one starts; in every struct, node-valued fields appear in source
// order when both are present.
func siblingsOrdered(src string, v reflect.Value, r *mon.R) bool {
	switch v.Kind() {
	case reflect.Interface, reflect.Ptr:
		if v.IsNil() {
			return true
		}
		return siblingsOrdered(src, v.Elem(), r)
	case reflect.Slice:
		prev := parser.Span{Start: -1, End: -1}
		for i := 0; i < v.Len(); i++ {
			e := Extent(v.Index(i).Interface())
			if prev.IsValid() && e.IsValid() && e.Start < prev.End {
				r.Violation("", "Parse(%q): element %d of a %v starts at %v, before its left sibling ends (%v)", src, i, v.Type(), e, prev)
				return false
			}
			if e.IsValid() {
				prev = e
			}
			if !siblingsOrdered(src, v.Index(i), r) {
				return false
			}
		}
	case reflect.Struct:
		if v.Type() == reflect.TypeOf(parser.Span{}) {
			return true
		}
		for i := 0; i < v.NumField(); i++ {
			if v.Type().Field(i).IsExported() && !siblingsOrdered(src, v.Field(i), r) {
				return false
			}
		}
	}
	return true
}

// Check decides one case.
func Check(c *Case, r *mon.R) {
	r.Case = c
	if c.Raw != nil {
		src := string(*c.Raw)
		stmts, err, o := mon.Parse(src)
		if o.Anomalous() {
			r.Inconclusive("foreign_parse_anomaly")
			return
		}
		// whatever parses successfully is held to the exact rules, generated or not
		if !checkNodes(src, stmts, err == nil, r) {
			return
		}
		if err == nil {
			r.Count("accepted_raw_sources_checked_exactly", 1)
		}
		nontrivial := false
		if err != nil {
			var text string
			if o := mon.Guarded(func() { text = err.Error() }); o.Anomalous() {
				r.Inconclusive("foreign_error_text_anomaly")
				return
			}
			if !checkErrorText(src, text, "Parse", r) {
				return
			}
			nontrivial = posRe.MatchString(strings.TrimPrefix(text, "parse pipeline query language: "))
			r.Count("failed_parses", 1)
		}
		_, cerr, o := mon.Compile(src, nil)
		if o.Anomalous() {
			r.Inconclusive("foreign_compile_anomaly")
			return
		}
		if cerr != nil {
			var text string
			if o := mon.Guarded(func() { text = cerr.Error() }); o.Anomalous() {
				r.Inconclusive("foreign_error_text_anomaly")
				return
			}
			if !checkErrorText(src, text, "Compile", r) {
				return
			}
			if err == nil {
				r.Count("compile_only_errors", 1)
				nontrivial = nontrivial || posRe.MatchString(text)
			}
		}
		if nontrivial {
			r.Nontrivial()
			if len(src) < 70 {
				r.Sample(map[string]any{"source": src, "error": fmt.Sprint(err, cerr)})
			}
		}
		return
	}
	pr := Print(c.Prog, gen.LayoutFor(c.Seed, c.Mode))
	stmts, err, o := mon.Parse(pr.Src)
	if o.Anomalous() {
		r.Inconclusive("foreign_parse_anomaly")
		return
	}
	if err != nil {
		r.Inconclusive("foreign_rejected_program") // C07 owns acceptance
		return
	}
	if d := Diff(stmts, pr.AST, true); d != "" {
		r.Violation("", "Parse(%q): a recorded position is not the source range of what it describes: %s\n got:  %s\n want: %s", pr.Src, d, Dump(stmts, 0, true), Dump(pr.AST, 0, true))
		return
	}
	if !checkNodes(pr.Src, stmts, true, r) {
		return
	}
	// compile errors of valid programs (semantic errors) carry positions too
	_, cerr, o := mon.Compile(pr.Src, nil)
	if o.Anomalous() {
		r.Inconclusive("foreign_compile_anomaly")
		return
	}
	if cerr != nil {
		var text string
		if o := mon.Guarded(func() { text = cerr.Error() }); !o.Anomalous() {
			if !checkErrorText(pr.Src, text, "Compile", r) {
				return
			}
		}
	}
	r.SetAdd("layout_modes", fmt.Sprint(c.Mode))
	if c.Prog.Weight() >= 3 {
		r.Nontrivial()
		if len(pr.Src) < 70 && c.Mode == 2 {
			r.Sample(map[string]any{"source": pr.Src, "tree": Dump(stmts, 0, true)})
		}
	}
}
