// Package c16: the command-line tool compiles exactly the statements it is given.
package c16

import (
	"bytes"
	"encoding/json"
	"fmt"
	"io"
	"math/rand"
	"os"
	"os/exec"
	"path/filepath"
	"strings"
	"sync"
	"time"

	"github.com/runreveal/pql"
	"github.com/runreveal/pql/parser"

	"verif/harness/gen"
	"verif/harness/mon"
	"verif/harness/pqlref"
)

func init() {
	mon.Register(&mon.Prop{
		ID:           "C16",
		Custom:       run,
		CustomReplay: replay,
		Rule: "the cmd/pql binary built from the working tree is run as a child process on generated scripts: sequences of let / query / invalid statements (lets that succeed, fail, shadow; queries using or not using them; lexically broken statements) x layouts " +
			"(several per line, statements across lines, comments and blank lines between, CRLF, final statement terminated or not) x delivery (stdin, one file, the script cut into 2-4 files at arbitrary bytes, '-' among files, -o file); " +
			"faults: a line longer than the line buffer, a directory as FILE, a missing file, strace-injected EIO on the K-th read. oracle: per-statement model computed from the generator's statement list with the library (prelude of accepted lets; expected stdout = SQL + blank line per successful query; " +
			"exit status non-zero iff a statement failed or input could not be read; at least one stderr line per failure; after a read fault stdout holds exactly the outputs of the statements completed before it). non-trivial = distinct (script, delivery) with at least two statements",
		Assumptions: []string{
			"scripts contain no empty statements and no let as unterminated last statement (DESIGN.md section 7)",
			"the model uses the library's Compile for the expected SQL of each statement (the library itself is the subject of C01-C13)",
			"strace fault injection is per thread; the verdict is conditioned on strace's own log showing that the injection fired",
		},
	})
	mon.Subcommands["c16model"] = modelMain
}

// Script is a list of statements with the separators written after each.
type Script struct {
	Stmts []string `json:"stmts"`
	// Seps[i] is written after statement i; the last one may lack the semicolon.
	Seps []string `json:"seps"`
	// Lead is written before the first statement.
	Lead string `json:"lead"`
	// RepA, RepB: when RepA > 0 the statements are RepA statements, RepB other
	// statements and the first RepA once more: the script can be delivered as
	// the FILE arguments a.pql b.pql a.pql (one file named twice).
	RepA int `json:"rep_a,omitempty"`
	RepB int `json:"rep_b,omitempty"`
}

// scriptWire is the JSON form: byte slices (base64), because scripts may
// contain bytes that are not valid UTF-8 and JSON strings would mangle them.
type scriptWire struct {
	Stmts [][]byte `json:"stmts"`
	Seps  [][]byte `json:"seps"`
	Lead  []byte   `json:"lead"`
	Text  string   `json:"text_for_reading"`
	RepA  int      `json:"rep_a,omitempty"`
	RepB  int      `json:"rep_b,omitempty"`
}

func (s *Script) MarshalJSON() ([]byte, error) {
	w := scriptWire{Lead: []byte(s.Lead), Text: s.Text(), RepA: s.RepA, RepB: s.RepB}
	for i := range s.Stmts {
		w.Stmts = append(w.Stmts, []byte(s.Stmts[i]))
		w.Seps = append(w.Seps, []byte(s.Seps[i]))
	}
	return json.Marshal(&w)
}

func (s *Script) UnmarshalJSON(b []byte) error {
	var w scriptWire
	if err := json.Unmarshal(b, &w); err != nil {
		return err
	}
	s.Lead = string(w.Lead)
	s.RepA, s.RepB = w.RepA, w.RepB
	s.Stmts, s.Seps = nil, nil
	for i := range w.Stmts {
		s.Stmts = append(s.Stmts, string(w.Stmts[i]))
		s.Seps = append(s.Seps, string(w.Seps[i]))
	}
	return nil
}

func (s *Script) Text() string {
	var sb strings.Builder
	sb.WriteString(s.Lead)
	for i, st := range s.Stmts {
		sb.WriteString(st)
		sb.WriteString(s.Seps[i])
	}
	return sb.String()
}

// Expect is the model's expectation for a script.
type Expect struct {
	StdoutB  []byte `json:"stdout"`
	Stdout   string `json:"-"`
	Failures int    `json:"failures"`
}

func isLet(stmt string) bool {
	t := pqlref.Tokens(stmt)
	return len(t) > 0 && t[0].Kind == parser.TokenIdentifier && t[0].Val == "let"
}

// model computes the expectation with the library (runs in a child process).
// compileNoPanic: a statement on which the library panics counts as a failed
// statement (the panic itself is C12's subject); the tool must still go on
// with the statements after it.
func compileNoPanic(src string) (sql string, err error) {
	defer func() {
		if p := recover(); p != nil {
			sql, err = "", fmt.Errorf("panic: %v", p)
		}
	}()
	return pql.Compile(src)
}

func model(s *Script) Expect {
	var e Expect
	prelude := ""
	for _, st := range s.Stmts {
		if isLet(st) {
			if _, err := compileNoPanic(prelude + st + ";\nModelDummyTable"); err != nil {
				e.Failures++
			} else {
				prelude += st + ";\n"
			}
			continue
		}
		sql, err := compileNoPanic(prelude + st)
		if err != nil {
			e.Failures++
			continue
		}
		e.Stdout += sql + "\n\n"
	}
	e.StdoutB = []byte(e.Stdout)
	return e
}

func modelMain(args []string) {
	b, err := os.ReadFile(args[0])
	if err != nil {
		os.Exit(2)
	}
	var scripts []*Script
	json.Unmarshal(b, &scripts)
	var out []Expect
	for _, s := range scripts {
		out = append(out, model(s))
	}
	ob, _ := json.Marshal(out)
	os.WriteFile(args[1], ob, 0o644)
}

var letsOK = []string{"let x = 5", "let lim = 2", "let s = 'a;b'", "let x = x + 1", "let y = -3", "let z = strcat('a', \"b\")", "let lim = lim * 2", "let t = true",
	"let s = 'a\x00b'", "let s = \"tab\\there \\\\ \\\" q\"", "let s = 'del\x7f cr\rmid nbsp\u00a0 bad\xff'", "let s = 'it\\'s'", "let x = 5", "let lim = 2"}
var letsBad = []string{"let q = nosuch", "let = 5", "let w = (", "let a.b = 1", "let v = `x`", "let u = T.a", "let 5 = x"}
var queries = []string{"T | where a == x | take lim", "T | count", "T | where s == 'a;b' // c;d\n| take 1", "T\n| project a, b\n| sort by a", "U | join (T) on k | where x > 1", "T | extend z = y * 2",
	"T | where a == -y", "T | top lim by a", "T | where t and a in (x, y)", "T | summarize n = count() by k | where n > x", "T | where b == \"q;\\\"\"", "`T;1` | take 1", "T | extend a+x", "T | where c == s", "T | project s, z", "T | where a == x | take lim",
	// strings and names that contain the comment marker, alone and beside a quote of the other kind
	"T | where u == 'http://h'", "T | where u == \"it's\" and v == 'http://h'", "`a//b` | count", "T | where u == \"a\\\"//b\" | take 1", "T | where u == '//' // c\n| count", "T | extend w = strcat('x//', \"'//\")",
	// tables whose names begin like the let keyword
	"set | count", "set", "set | where a == x", "distinct | take 1", "`set` | count",
	"let_events | count", "let2 | take 1", "letters | where a == x", "Let | count", "`let` | take lim", "let_ | project a", "lets\n| count",
	// quoted names and strings that end in a backslash right before the semicolon
	"T | project `a\\`", "`t\\` | count", "T | where s == 'a\\\\'", "T | where s == \"q\\\\\" and `b\\` > x", "T | extend `c\\\\` = 'd\\\\'"}
var invalid = []string{"T | where (", "T | bogus", "!", "T | take 1.5", "T | where 'unterminated\n", "T U", "T | where a ==", "| count", "T | join (U) on",
	"T | take 1e", "T | where a > 2.5e-", "T | where not()", "let n = tolower()", "T | where iff(a)", "T | extend x = 0x", "T | where a -- b",
	// a byte order mark or another unrecognisable character at the start of a statement or of one of its lines
	"\ufeffT | count", "T\n\ufeff| count", "\ufefflet bom = 1", "T | where a == 1\n\ufeff", "\u00a0T | count", "T\n\x00| take 1"}
var seps = []string{"; ", ";\n", ";\n\n// a comment; with a semicolon\n", " ;\n", ";\r\n", ";\n   \n", "; // trailing comment\n", ";\t",
	" // comment before the semicolon\n;\n", "\n;\n", "\n\n  ;  ", " //c\n\n;", "\t// x ; y\n ;\n",
	";\n" + strings.Repeat("// sixty bytes of commentary to pad the line out to its length\n", 17),
	";\n" + strings.Repeat("// a comment line; with a semicolon in it\n", 30) + "\n",
	"\n" + strings.Repeat("// before the semicolon\n", 50) + ";\n"}

// chainScript: lets that depend on earlier lets, then queries that use the
// last link, with unrelated statements interleaved.
func chainScript(rng *rand.Rand) *Script {
	s := &Script{}
	add := func(st string) {
		s.Stmts = append(s.Stmts, st)
		s.Seps = append(s.Seps, seps[rng.Intn(len(seps))])
	}
	names := []string{"lo", "hi", "mid", "top2", "x", "lim"}
	rng.Shuffle(len(names), func(i, j int) { names[i], names[j] = names[j], names[i] })
	k := 2 + rng.Intn(3)
	add(fmt.Sprintf("let %s = %d", names[0], 1+rng.Intn(9)))
	for i := 1; i < k; i++ {
		if rng.Intn(3) == 0 {
			add(invalid[rng.Intn(len(invalid))])
		}
		if rng.Intn(4) == 0 {
			add(letsBad[rng.Intn(len(letsBad))])
		}
		op := []string{"+", "*", "-"}[rng.Intn(3)]
		if rng.Intn(4) == 0 {
			add(fmt.Sprintf("let %s = %s %s %d", names[i-1], names[i-1], op, 1+rng.Intn(5))) // redefinition from the old value
		}
		add(fmt.Sprintf("let %s = %s %s %d", names[i], names[i-1], op, 1+rng.Intn(5)))
	}
	last := names[k-1]
	for q := 1 + rng.Intn(2); q > 0; q-- {
		switch rng.Intn(3) {
		case 0:
			add("T | where a > " + last + " | take " + names[0])
		case 1:
			add("T | extend v = " + last + " * 2, w = -" + names[rng.Intn(k)])
		default:
			add("T\n| top " + last + " by a")
		}
	}
	if rng.Intn(2) == 0 {
		s.Seps[len(s.Seps)-1] = []string{"", "\n"}[rng.Intn(2)]
	}
	return s
}

// repeatScript: the same statement text several times with lets changing in
// between, and lets repeated verbatim after something they depend on changed.
func repeatScript(rng *rand.Rand) *Script {
	s := &Script{}
	sep := []string{";\n", "; ", ";\n\n"}[rng.Intn(3)] // uniform, so that repeated pieces are byte-identical
	add := func(st string) {
		s.Stmts = append(s.Stmts, st)
		s.Seps = append(s.Seps, sep)
	}
	q := []string{"T | where a == x", "T | take x", "T | extend v = x + y", "T | where a == x | project a, x"}[rng.Intn(4)]
	switch rng.Intn(3) {
	case 0:
		add(q)
		add("let x = 1")
		add(q)
		add("let x = 2")
		add(q)
		add("let y = x")
		add(q)
	case 1:
		add("let x = 1")
		add("let x = 2")
		add("let x = 1")
		add(q)
		add("let x = 2")
		add(q)
	default:
		add("let x = 1")
		add("let y = x")
		add(q)
		add("let x = 2")
		add("let y = x")
		add(q)
		add("let y = x")
		add(q)
	}
	if rng.Intn(2) == 0 {
		s.Seps[len(s.Seps)-1] = ""
	}
	return s
}

// stringScript: lets bound to strings whose white space matters (runs of
// blanks, tabs, no-break spaces, leading and trailing blanks, line breaks
// inside the literal), each followed, sooner or later, by queries that use them.
func stringScript(rng *rand.Rand) *Script {
	s := &Script{}
	add := func(st string) {
		s.Stmts = append(s.Stmts, st)
		s.Seps = append(s.Seps, seps[rng.Intn(len(seps))])
	}
	bodies := []string{"a  b", "a\tb", " lead", "trail ", "x\u00a0y", "x\u00a0 \u00a0y", "two  \t  kinds", "\u2003em", "a\u2028b", "   ", "\t", "a b", "//not a comment", "semi ; colon  ;  twice"}
	names := []string{"s", "t1", "u", "w"}
	k := 1 + rng.Intn(3)
	for i := 0; i < k; i++ {
		q := []string{"'", "\""}[rng.Intn(2)]
		add("let " + names[i] + " = " + q + bodies[rng.Intn(len(bodies))] + q)
		if rng.Intn(3) == 0 {
			add("let " + names[i] + "2 = strcat(" + names[i] + ", " + q + bodies[rng.Intn(len(bodies))] + q + ")")
		}
		if rng.Intn(3) == 0 {
			add(queries[rng.Intn(len(queries))])
		}
	}
	for i := 0; i < k; i++ {
		add("T | where c == " + names[i] + " | extend e = strcat(" + names[i] + ", '  ')")
	}
	if rng.Intn(2) == 0 {
		s.Seps[len(s.Seps)-1] = ""
	}
	return s
}

// oneLineScript: several statements on one line (one flush of the tool's
// buffer): queries on back-quoted and plain tables, lets, and uses of those lets.
func oneLineScript(rng *rand.Rand) *Script {
	s := &Script{}
	pool := []string{"`storm events` | count", "`T;1` | take 1", "let lim = 5", "Other | where n > lim", "let lim = lim + 1", "`let` | take lim", "T | top lim by a", "let s = 'x;y'", "T | where c == s", "!", "T | bogus", "let = 1", "U | count"}
	n := 3 + rng.Intn(5)
	for i := 0; i < n; i++ {
		s.Stmts = append(s.Stmts, pool[rng.Intn(len(pool))])
		s.Seps = append(s.Seps, []string{"; ", ";", " ; ", ";\t"}[rng.Intn(4)])
	}
	last := len(s.Stmts) - 1
	s.Seps[last] = []string{";\n", ";", "\n", ""}[rng.Intn(4)]
	if isLet(s.Stmts[last]) {
		s.Seps[last] = ";\n"
	}
	return s
}

// markerScript: a statement whose string or quoted name contains the comment
// marker is terminated on its own line, and nothing after it has a semicolon:
// the last statement is left unterminated (or the script ends there).
func markerScript(rng *rand.Rand) *Script {
	s := &Script{}
	add := func(st, sep string) {
		s.Stmts = append(s.Stmts, st)
		s.Seps = append(s.Seps, sep)
	}
	marked := []string{"T | where u == 'http://h'", "T | where u == \"it's\" and v == 'http://h'", "`a//b` | count", "T | where u == \"a\\\"//b\" | take 1", "T | extend w = strcat('x//', \"'//\")",
		"let u = 'http://h'", "let u = \"it's //\"", "T | where a == 1 and `c//d` == \"'\" and e == 'f//g'"}
	for k := rng.Intn(3); k > 0; k-- {
		add(queries[rng.Intn(len(queries))], seps[rng.Intn(len(seps))])
	}
	add(marked[rng.Intn(len(marked))], []string{"; ", ";", ";\n", " ;\n", ";\t\n"}[rng.Intn(5)])
	switch rng.Intn(4) {
	case 0: // nothing more
	case 1:
		add("T | where c == u", []string{"", "\n"}[rng.Intn(2)])
	case 2:
		add("U\n| count", "\n")
	default:
		add(marked[rng.Intn(5)], "")
	}
	return s
}

// markerScriptsAll: every marked statement of markerScript with every
// terminator and every kind of tail (see markerScript).
func markerScriptsAll() []*Script {
	marked := []string{"T | where u == 'http://h'", "T | where u == \"it's\" and v == 'http://h'", "`a//b` | count", "T | where u == \"a\\\"//b\" | take 1", "T | extend w = strcat('x//', \"'//\")",
		"let u = 'http://h'", "let u = \"it's //\"", "T | where a == 1 and `c//d` == \"'\" and e == 'f//g'"}
	var out []*Script
	for mi, m := range marked {
		for ti, term := range []string{"; ", ";", ";\n", " ;\n", ";\t\n"} {
			for tail := 0; tail < 4; tail++ {
				s := &Script{}
				if (mi+ti)%2 == 0 {
					s.Stmts, s.Seps = append(s.Stmts, "T | count"), append(s.Seps, ";\n")
				}
				s.Stmts, s.Seps = append(s.Stmts, m), append(s.Seps, term)
				switch tail {
				case 1:
					s.Stmts, s.Seps = append(s.Stmts, "T | where c == u"), append(s.Seps, []string{"", "\n"}[ti%2])
				case 2:
					s.Stmts, s.Seps = append(s.Stmts, "U\n| count"), append(s.Seps, "\n")
				case 3:
					s.Stmts, s.Seps = append(s.Stmts, marked[(mi+1)%5]), append(s.Seps, "")
				}
				out = append(out, s)
			}
		}
	}
	return out
}

// longScript: hundreds of statements, most of them spread over several lines,
// several times the size of any line or read buffer.
func longScript(rng *rand.Rand) *Script {
	s := &Script{}
	n := 60 + rng.Intn(400)
	for i := 0; i < n; i++ {
		var st string
		switch r := rng.Intn(12); {
		case r < 2:
			st = fmt.Sprintf("let v%d = %d", rng.Intn(6), i)
			if i > 6 {
				switch rng.Intn(3) {
				case 0: // from another binding (which may be redefined later)
					st = fmt.Sprintf("let v%d = v%d + %d", rng.Intn(6), rng.Intn(6), i)
				case 1: // from its own old value
					n := rng.Intn(6)
					st = fmt.Sprintf("let v%d = v%d * 2", n, n)
				}
			}
		case r < 4 && i > 6:
			st = fmt.Sprintf("T | where a == v%d | take v%d", rng.Intn(6), rng.Intn(6))
		case r < 3:
			st = invalid[rng.Intn(len(invalid))]
		case r < 5:
			st = queries[rng.Intn(len(queries))]
		default:
			// a statement of its own text (the ordinal makes every one different)
			st = fmt.Sprintf("T%d\n| where a == %d and s == 'stmt %d'\n| project a, b,\n    c%d = a * %d\n| sort by a desc\n| take %d", i%7, i, i, i, i%13, 1+i%50)
		}
		s.Stmts = append(s.Stmts, st)
		s.Seps = append(s.Seps, []string{";\n", ";\n", "\n;\n", "; ", ";\r\n", ";\n\n"}[rng.Intn(6)])
	}
	if last := len(s.Stmts) - 1; !isLet(s.Stmts[last]) && rng.Intn(2) == 0 {
		s.Seps[last] = ""
	}
	return s
}

// directedScripts: every ordered pair and triple out of a small pool of
// statement kinds (queries on quoted and plain tables, lets, uses of them,
// invalid statements, comments that hold a semicolon)
// written on ONE line, so that the tool meets them in one flush of its buffer,
// and the same with a line break inside the last statement.
func directedScripts() []*Script {
	pool := []string{"`storm events` | count", "Other | where n > lim", "let lim = 5", "let lim = lim + 1", "!", "let = 1", "U | count", "T | where s == 'x;y' // c;d\n| take lim", "`let` | take 1"}
	var out []*Script
	mk := func(idx []int, sep, lastSep string) {
		s := &Script{}
		for _, i := range idx {
			s.Stmts = append(s.Stmts, pool[i])
			s.Seps = append(s.Seps, sep)
		}
		last := len(s.Stmts) - 1
		s.Seps[last] = lastSep
		if isLet(s.Stmts[last]) {
			s.Seps[last] = ";\n"
		}
		out = append(out, s)
	}
	n := len(pool)
	for a := 0; a < n; a++ {
		for b := 0; b < n; b++ {
			mk([]int{a, b}, "; ", []string{";\n", "", "\n"}[(a+b)%3])
			for c := 0; c < n; c++ {
				mk([]int{a, b, c}, []string{"; ", ";", " ;\t"}[(a+b+c)%3], []string{";\n", "", ";"}[(a+2*b+c)%3])
			}
		}
	}
	return out
}

// repeatedFileScripts: scripts of the form A B A (statement blocks), to be
// delivered as three FILE arguments of which the first and the last are one
// and the same file: B redefines what A defined, the second A defines it back.
func repeatedFileScripts() []*Script {
	blocksA := [][]string{{"let lim = 10", "T | take lim"}, {"let lim = 10"}, {"T | count"}, {"let s = 'a'", "let lim = 1", "T | where c == s | take lim"}, {"!", "let lim = 3"}}
	blocksB := [][]string{{"let lim = 100", "U | take lim"}, {"let lim = lim * 2"}, {"U | count"}, {"let s = 'b'", "T | where c == s"}, {"T | bogus"}}
	var out []*Script
	for _, a := range blocksA {
		for _, b := range blocksB {
			s := &Script{RepA: len(a), RepB: len(b)}
			for _, st := range append(append(append([]string{}, a...), b...), a...) {
				s.Stmts = append(s.Stmts, st)
				s.Seps = append(s.Seps, ";\n")
			}
			out = append(out, s)
		}
	}
	return out
}

// commentedScript: several hundred short statements, every one followed by a
// comment on the same line (no line ends in the semicolon itself), 70 to 200 KB
// in all.
func commentedScript(rng *rand.Rand) *Script {
	s := &Script{}
	n := 1500 + rng.Intn(2500)
	for i := 0; i < n; i++ {
		var st string
		switch rng.Intn(6) {
		case 0:
			st = fmt.Sprintf("let v%d = %d", rng.Intn(4), i)
		case 1:
			st = invalid[rng.Intn(len(invalid))]
			if strings.Contains(st, "\n") || strings.Contains(st, "unterminated") {
				st = "T | bogus"
			}
		default:
			st = fmt.Sprintf("T%d | where a == %d | take %d", i%5, i, 1+i%9)
		}
		s.Stmts = append(s.Stmts, st)
		s.Seps = append(s.Seps, []string{"; // done\n", ";// x ; y\n", " ; // c\n", ";\t// t\n"}[rng.Intn(4)])
	}
	return s
}

func genScript(rng *rand.Rand) *Script {
	switch rng.Intn(8) {
	case 0, 1:
		return chainScript(rng)
	case 2:
		return repeatScript(rng)
	case 3:
		if rng.Intn(4) == 0 {
			return longScript(rng)
		}
		switch rng.Intn(3) {
		case 0:
			return oneLineScript(rng)
		case 1:
			return markerScript(rng)
		}
		return stringScript(rng)
	}
	n := 1 + rng.Intn(6)
	s := &Script{}
	if rng.Intn(4) == 0 {
		s.Lead = []string{"\n", "// header\n", "  ", "\r\n"}[rng.Intn(4)]
	}
	for i := 0; i < n; i++ {
		var st string
		switch r := rng.Intn(10); {
		case r < 3:
			st = letsOK[rng.Intn(len(letsOK))]
		case r < 4:
			st = letsBad[rng.Intn(len(letsBad))]
		case r < 8:
			st = queries[rng.Intn(len(queries))]
		default:
			st = invalid[rng.Intn(len(invalid))]
		}
		s.Stmts = append(s.Stmts, st)
		s.Seps = append(s.Seps, seps[rng.Intn(len(seps))])
	}
	// the last statement: terminated or not (never an unterminated let)
	last := len(s.Stmts) - 1
	if !isLet(s.Stmts[last]) {
		switch rng.Intn(4) {
		case 0:
			s.Seps[last] = ""
		case 1:
			s.Seps[last] = "\n"
		case 2:
			s.Seps[last] = " // end"
		}
	}
	return s
}

type result struct {
	stdout, stderr string
	exit           int
	timedOut       bool
}

func runCLI(cli string, args []string, stdin string, dir string) result {
	cmd := exec.Command("timeout", append([]string{"-s", "KILL", "30", cli}, args...)...)
	cmd.Dir = dir
	var so, se bytes.Buffer
	cmd.Stdout, cmd.Stderr = &so, &se
	var err error
	if chunks := stdinChunks(stdin); len(chunks) > 1 {
		// standard input arrives in several writes with pauses in between (a
		// pipe fed by another program): reads return less than was asked for
		pw, perr := cmd.StdinPipe()
		if perr == nil && cmd.Start() == nil {
			for _, ch := range chunks {
				io.WriteString(pw, ch)
				time.Sleep(15 * time.Millisecond)
			}
			pw.Close()
			err = cmd.Wait()
		} else {
			err = fmt.Errorf("cannot start")
		}
	} else {
		cmd.Stdin = strings.NewReader(stdin)
		err = cmd.Run()
	}
	r := result{stdout: so.String(), stderr: se.String()}
	if err != nil {
		if ee, ok := err.(*exec.ExitError); ok {
			r.exit = ee.ExitCode()
			if r.exit == 137 || r.exit == -1 {
				r.timedOut = true
			}
		} else {
			r.exit = -2
		}
	}
	return r
}

// stdinChunks cuts every third standard input of some length into 2-3 pieces
// (decided by its content, so that a replay does the same).
func stdinChunks(s string) []string {
	if len(s) < 8 {
		return nil
	}
	h := 0
	for i := 0; i < len(s); i++ {
		h = h*31 + int(s[i])
	}
	if h < 0 {
		h = -h
	}
	if h%3 != 0 {
		return nil
	}
	a := 1 + h/3%(len(s)-2)
	b := a + (h/7)%(len(s)-a)
	if b == a {
		return []string{s[:a], s[a:]}
	}
	return []string{s[:a], s[a:b], s[b:]}
}

func stderrLines(s string) int {
	n := 0
	for _, l := range strings.Split(s, "\n") {
		if strings.TrimSpace(l) != "" {
			n++
		}
	}
	return n
}

func run(c *mon.Custom) {
	cli := os.Getenv("VERIF_PQLCLI")
	if cli == "" {
		c.HarnessError("VERIF_PQLCLI is not set (run through ./check)")
		return
	}
	self := c.Self
	c.SetShards(16)
	rng := gen.RNG(c.Seed, "c16")
	nScripts := 260
	if !c.Quick() {
		nScripts = 9000
	}
	var scripts []*Script
	for i := 0; i < nScripts; i++ {
		scripts = append(scripts, genScript(rng))
	}
	nRandom := len(scripts)
	scripts = append(scripts, directedScripts()...)
	scripts = append(scripts, repeatedFileScripts()...)
	scripts = append(scripts, markerScriptsAll()...)
	for i := 0; i < 2; i++ {
		scripts = append(scripts, commentedScript(rng))
	}
	// model expectations, in child processes, batches of 50
	expects := make([]*Expect, len(scripts))
	var wg sync.WaitGroup
	sem := make(chan struct{}, 16)
	for b := 0; b < len(scripts); b += 50 {
		end := b + 50
		if end > len(scripts) {
			end = len(scripts)
		}
		wg.Add(1)
		go func(b, end int) {
			defer wg.Done()
			sem <- struct{}{}
			defer func() { <-sem }()
			in := filepath.Join(c.Dir, fmt.Sprintf("model%d.in", b))
			out := filepath.Join(c.Dir, fmt.Sprintf("model%d.out", b))
			jb, _ := json.Marshal(scripts[b:end])
			os.WriteFile(in, jb, 0o644)
			cmd := exec.Command("timeout", "-s", "KILL", "120", self, "c16model", in, out)
			if err := cmd.Run(); err != nil {
				return
			}
			ob, err := os.ReadFile(out)
			if err != nil {
				return
			}
			var es []Expect
			if json.Unmarshal(ob, &es) != nil || len(es) != end-b {
				return
			}
			for i := range es {
				es[i].Stdout = string(es[i].StdoutB)
				expects[b+i] = &es[i]
			}
		}(b, end)
	}
	wg.Wait()

	deliveries := []string{"stdin", "file", "multi", "dash", "outfile", "manyfiles", "devstdin"}
	type job struct {
		i int
		d string
		r int64
	}
	var jobs []job
	for i := range scripts {
		if scripts[i].RepA > 0 {
			jobs = append(jobs, job{i, "samefile", rng.Int63()}, job{i, "stdin", rng.Int63()})
			continue
		}
		if i >= nRandom {
			// the directed scripts: one delivery each in the quick tier, two otherwise
			jobs = append(jobs, job{i, deliveries[i%len(deliveries)], rng.Int63()})
			if !c.Quick() {
				jobs = append(jobs, job{i, deliveries[(i/7+1)%len(deliveries)], rng.Int63()})
			}
			continue
		}
		if c.Quick() {
			for _, d := range deliveries {
				jobs = append(jobs, job{i, d, rng.Int63()})
			}
		} else {
			jobs = append(jobs, job{i, deliveries[i%len(deliveries)], rng.Int63()}, job{i, deliveries[(i/5+1)%len(deliveries)], rng.Int63()})
		}
	}
	par := make(chan struct{}, 16)
	for ji, j := range jobs {
		if c.ViolationCount() >= 5 {
			break
		}
		wg.Add(1)
		par <- struct{}{}
		ji := ji
		go func(j job) {
			defer wg.Done()
			defer func() { <-par }()
			s, e := scripts[j.i], expects[j.i]
			if e == nil {
				c.Inconclusive("model_process_failed")
				return
			}
			checkDelivery(c, cli, s, e, j.d, gen.RNG(j.r, "delivery"), fmt.Sprintf("j%d-s%d-%s", ji, j.i, j.d))
		}(j)
	}
	wg.Wait()
	faults(c, cli, self, rng)
}

func checkDelivery(c *mon.Custom, cli string, s *Script, e *Expect, delivery string, rng *rand.Rand, tag string) {
	text := s.Text()
	dir := filepath.Join(c.Dir, tag)
	os.MkdirAll(dir, 0o755)
	defer os.RemoveAll(dir)
	var args []string
	stdin := ""
	outFile := ""
	write := func(name, content string) string {
		p := filepath.Join(dir, name)
		os.WriteFile(p, []byte(content), 0o644)
		return name
	}
	cut := func(k int) []string {
		// k pieces at arbitrary byte positions
		var pos []int
		for i := 0; i < k-1; i++ {
			pos = append(pos, rng.Intn(len(text)+1))
		}
		pos = append(pos, len(text))
		for i := range pos {
			for j := i + 1; j < len(pos); j++ {
				if pos[j] < pos[i] {
					pos[i], pos[j] = pos[j], pos[i]
				}
			}
		}
		var out []string
		prev := 0
		for _, p := range pos {
			out = append(out, text[prev:p])
			prev = p
		}
		return out
	}
	switch delivery {
	case "stdin":
		stdin = text
		if rng.Intn(2) == 0 {
			args = []string{"-"}
		}
	case "file":
		args = []string{write("script.pql", text)}
	case "multi":
		for i, p := range cut(2 + rng.Intn(3)) {
			args = append(args, write(fmt.Sprintf("part%d.pql", i), p))
		}
	case "dash":
		ps := cut(3)
		switch rng.Intn(3) {
		case 0:
			args = []string{write("a.pql", ps[0]), "-", write("c.pql", ps[2])}
			stdin = ps[1]
		case 1: // standard input first, files after it
			args = []string{"-", write("b.pql", ps[1]), write("c.pql", ps[2])}
			stdin = ps[0]
		default: // files first, standard input last
			args = []string{write("a.pql", ps[0]), write("b.pql", ps[1]), "-"}
			stdin = ps[2]
		}
	case "devstdin":
		// standard input named as a FILE among the others (not a regular file:
		// it has no size to speak of, yet it delivers data)
		ps := cut(3)
		switch rng.Intn(3) {
		case 0:
			args = []string{write("a.pql", ps[0]), "/dev/stdin", write("c.pql", ps[2])}
			stdin = ps[1]
		case 1:
			args = []string{"/dev/stdin", write("b.pql", ps[1]), write("c.pql", ps[2])}
			stdin = ps[0]
		default:
			args = []string{write("a.pql", ps[0]), write("b.pql", ps[1]), "/dev/stdin"}
			stdin = ps[2]
		}
	case "samefile":
		// a.pql b.pql a.pql: one file named twice among the FILE arguments
		blk := func(from, to int) string {
			var sb strings.Builder
			for i := from; i < to; i++ {
				sb.WriteString(s.Stmts[i])
				sb.WriteString(s.Seps[i])
			}
			return sb.String()
		}
		a := write("a.pql", blk(0, s.RepA))
		b := write("b.pql", blk(s.RepA, s.RepA+s.RepB))
		args = []string{a, b, a}
	case "manyfiles":
		// the script cut in two with a long run of empty files (and some blank ones) in between
		ps := cut(2)
		args = append(args, write("first.pql", ps[0]))
		nEmpty := []int{1, 50, 99, 100, 101, 150, 300}[rng.Intn(7)]
		write("empty.pql", "")
		for i := 0; i < nEmpty; i++ {
			args = append(args, "empty.pql")
		}
		args = append(args, write("last.pql", ps[1]))
	case "outfile":
		args = []string{"-o", "out.sql", write("script.pql", text)}
		outFile = filepath.Join(dir, "out.sql")
		if rng.Intn(2) == 0 {
			// the output file already exists and is longer than the new output
			write("out.sql", strings.Repeat("-- stale content of an earlier run\n", 400))
		}
	}
	r := runCLI(cli, args, stdin, dir)
	key := fmt.Sprintf("%s|%q", delivery, text)
	cs := map[string]any{"script": s, "delivery": delivery, "args": args, "stdin": stdin}
	if r.timedOut {
		c.Violation(key, "", fmt.Sprintf("pql %v on the script %q did not finish within 30 s", args, text), cs)
		return
	}
	got := r.stdout
	if outFile != "" {
		b, _ := os.ReadFile(outFile)
		got = string(b)
		if r.stdout != "" {
			c.Violation(key, "", fmt.Sprintf("pql -o out.sql wrote %q to standard output", r.stdout), cs)
			return
		}
	}
	if got != e.Stdout {
		c.Violation(key, "", fmt.Sprintf("pql %v (delivery %s) on script\n%s\nwrote\n%s\nbut the statements it was given compile, in order and with the accepted lets in scope, to\n%s\n(stderr: %s)", args, delivery, indent(text), indent(got), indent(e.Stdout), clip(r.stderr, 600)), cs)
		return
	}
	if (e.Failures > 0) != (r.exit != 0) {
		c.Violation(key, "", fmt.Sprintf("pql %v on script\n%s\nexited with status %d although %d statement(s) failed (stderr: %s)", args, indent(text), r.exit, e.Failures, clip(r.stderr, 400)), cs)
		return
	}
	if stderrLines(r.stderr) < e.Failures {
		c.Violation(key, "", fmt.Sprintf("pql %v on script\n%s\nreported %d line(s) on standard error for %d failed statement(s): %q", args, indent(text), stderrLines(r.stderr), e.Failures, r.stderr), cs)
		return
	}
	kinds := ""
	for _, st := range s.Stmts {
		switch {
		case isLet(st):
			kinds += "L"
		default:
			kinds += "Q"
		}
	}
	c.SetAdd("delivery_modes", delivery)
	c.SetAdd("statement_kind_sequences", kinds)
	c.Count("cli_runs", 1)
	c.Count("statements_run", int64(len(s.Stmts)))
	if e.Failures > 0 {
		c.Count("scripts_with_failures", 1)
	}
	var sample any
	if len(text) < 160 && len(s.Stmts) >= 3 {
		sample = map[string]any{"script": text, "delivery": delivery, "stdout": got, "exit": r.exit}
	}
	c.Decided(len(s.Stmts) >= 2, sample)
}

// faults: input that cannot be read completely.
func faults(c *mon.Custom, cli, self string, rng *rand.Rand) {
	dir := filepath.Join(c.Dir, "faults")
	os.MkdirAll(dir, 0o755)
	defer os.RemoveAll(dir)
	before := &Script{Stmts: []string{"let x = 1", "T | where a == x"}, Seps: []string{";\n", ";\n"}}
	jb, _ := json.Marshal([]*Script{before})
	os.WriteFile(filepath.Join(dir, "m.in"), jb, 0o644)
	if err := exec.Command("timeout", "-s", "KILL", "60", self, "c16model", filepath.Join(dir, "m.in"), filepath.Join(dir, "m.out")).Run(); err != nil {
		c.Inconclusive("model_process_failed")
		return
	}
	var es []Expect
	ob, _ := os.ReadFile(filepath.Join(dir, "m.out"))
	if json.Unmarshal(ob, &es) != nil || len(es) != 1 {
		c.Inconclusive("model_process_failed")
		return
	}
	es[0].Stdout = string(es[0].StdoutB)
	pre := es[0].Stdout
	check := func(name string, args []string, stdin string, wantStdout string, what string) {
		r := runCLI(cli, args, stdin, dir)
		key := "fault|" + name
		cs := map[string]any{"fault": name, "args": args}
		switch {
		case r.timedOut:
			c.Violation(key, "", "pql did not finish within 30 s on "+what, cs)
		case r.exit == 0:
			c.Violation(key, "", fmt.Sprintf("pql %v: %s, yet the exit status is 0 (stdout %q, stderr %q): input that could not be read completely is dropped silently", args, what, clip(r.stdout, 300), clip(r.stderr, 300)), cs)
		case strings.TrimSpace(r.stderr) == "":
			c.Violation(key, "", fmt.Sprintf("pql %v: %s, exit status %d but nothing on standard error", args, what, r.exit), cs)
		case r.stdout != wantStdout:
			c.Violation(key, "", fmt.Sprintf("pql %v: %s; standard output is\n%s\nbut the statements completed before the fault compile to\n%s", args, what, indent(r.stdout), indent(wantStdout)), cs)
		default:
			c.SetAdd("faults_checked", name)
			c.Decided(true, map[string]any{"fault": name, "exit": r.exit, "stderr": clip(r.stderr, 200)})
		}
	}
	// many failing statements after two good ones: the exit status says "failed"
	// whatever their number (an exit status is a byte)
	for _, n := range []int{1, 2, 127, 128, 255, 256, 257, 511, 512, 768, 1024} {
		for _, bad := range []string{"!;\n", "T | bogus; "} {
			in := before.Text() + strings.Repeat(bad, n)
			check(fmt.Sprintf("failures-%d-%q", n, bad), nil, in, pre, fmt.Sprintf("%d statements of the input fail", n))
		}
	}
	// a line longer than the scanner's buffer, after two complete statements
	long := before.Text() + "T | where a == '" + strings.Repeat("x", 70_000) + "';\nT | count;\n"
	os.WriteFile(filepath.Join(dir, "long.pql"), []byte(long), 0o644)
	check("long-line-file", []string{"long.pql"}, "", pre, "line 3 of the input is 70 KB long and cannot be read")
	check("long-line-stdin", nil, long, pre, "line 3 of standard input is 70 KB long and cannot be read")
	// the over-long line in the middle of a multi-line statement whose first lines
	// would be a valid query on their own: nothing of it may be compiled
	mid := before.Text() + "T\n| where a == '" + strings.Repeat("x", 70_000) + "'\n| take 5;\nT | count;\n"
	os.WriteFile(filepath.Join(dir, "mid.pql"), []byte(mid), 0o644)
	check("long-line-inside-statement", []string{"mid.pql"}, "", pre, "line 4, in the middle of a statement, is 70 KB long and cannot be read")
	mid2 := before.Text() + "T | where b\n// " + strings.Repeat("c", 70_000) + "\n| take 5;\n"
	os.WriteFile(filepath.Join(dir, "mid2.pql"), []byte(mid2), 0o644)
	check("long-comment-inside-statement", []string{"mid2.pql"}, "", pre, "a 70 KB comment line in the middle of a statement cannot be read")
	// a directory as FILE
	os.MkdirAll(filepath.Join(dir, "adir"), 0o755)
	os.WriteFile(filepath.Join(dir, "ok.pql"), []byte(before.Text()), 0o644)
	check("directory", []string{"adir"}, "", "", "FILE is a directory")
	check("directory-after-file", []string{"ok.pql", "adir"}, "", pre, "the second FILE is a directory")
	os.WriteFile(filepath.Join(dir, "last.pql"), []byte("T | count;\n"), 0o644)
	check("directory-between-files", []string{"ok.pql", "adir", "last.pql"}, "", pre, "the second of three FILEs is a directory and cannot be read")
	check("directory-first-of-two", []string{"adir", "last.pql"}, "", "", "the first of two FILEs is a directory and cannot be read")
	// a missing file
	check("missing-file", []string{"ok.pql", "no-such-file.pql"}, "", "", "the second FILE does not exist")
	// strace-injected EIO on the K-th read of the input file
	if _, err := exec.LookPath("strace"); err != nil {
		c.Inconclusive("strace_not_available")
		return
	}
	big := before.Text() + strings.Repeat("T | count;\nT\n| count;\n", 800) // several 4 KiB reads, cut inside statements
	os.WriteFile(filepath.Join(dir, "big.pql"), []byte(big), 0o644)
	for k := 1; k <= 4; k++ {
		logf := filepath.Join(dir, fmt.Sprintf("strace%d.log", k))
		cliArgs := []string{"big.pql"}
		if k == 4 {
			// the failing file is followed by a readable one
			cliArgs = []string{"big.pql", "last.pql"}
		}
		cmd := exec.Command("timeout", append([]string{"-s", "KILL", "60", "strace", "-f", "-o", logf, "-P", filepath.Join(dir, "big.pql"), "-e", "trace=read",
			"-e", fmt.Sprintf("inject=read:error=EIO:when=%d", min(k, 2)), cli}, cliArgs...)...)
		cmd.Dir = dir
		var so, se bytes.Buffer
		cmd.Stdout, cmd.Stderr = &so, &se
		err := cmd.Run()
		lb, _ := os.ReadFile(logf)
		if !strings.Contains(string(lb), "(INJECTED)") {
			c.Inconclusive("strace_injection_did_not_fire")
			continue
		}
		exit := 0
		if ee, ok := err.(*exec.ExitError); ok {
			exit = ee.ExitCode()
		}
		name := fmt.Sprintf("eio-read-%d", k)
		key := "fault|" + name
		cs := map[string]any{"fault": name}
		out := so.String()
		// stdout must be the outputs of a whole number of leading statements
		okPrefix := out == ""
		if strings.HasPrefix(out, pre) {
			rest := out[len(pre):]
			const countOut = "SELECT COUNT(*) AS \"count()\" FROM \"T\";\n\n"
			okPrefix = len(rest)%len(countOut) == 0 && strings.Repeat(countOut, len(rest)/len(countOut)) == rest
		}
		switch {
		case exit == 0:
			c.Violation(key, "", fmt.Sprintf("read #%d of the input file failed with EIO (injected), yet pql exits with status 0 (%d bytes of output, stderr %q)", k, len(out), clip(se.String(), 300)), cs)
		case strings.TrimSpace(se.String()) == "":
			c.Violation(key, "", fmt.Sprintf("read #%d of the input file failed with EIO (injected), exit status %d but nothing on standard error", k, exit), cs)
		case !okPrefix:
			c.Violation(key, "", fmt.Sprintf("read #%d failed with EIO: standard output is not a prefix of the expected outputs: %q", k, clip(out, 300)), cs)
		default:
			c.SetAdd("faults_checked", name)
			c.Decided(true, map[string]any{"fault": name, "exit": exit})
		}
	}
}

func indent(s string) string {
	return "    | " + strings.ReplaceAll(strings.TrimRight(s, "\n"), "\n", "\n    | ")
}

func clip(s string, n int) string {
	if len(s) > n {
		return s[:n] + "…"
	}
	return s
}

// replay re-runs one recorded (script, delivery) or the fault family.
func replay(c *mon.Custom, raw json.RawMessage) {
	cli := os.Getenv("VERIF_PQLCLI")
	var rc struct {
		Script   *Script `json:"script"`
		Delivery string  `json:"delivery"`
		Fault    string  `json:"fault"`
	}
	json.Unmarshal(raw, &rc)
	if rc.Fault != "" || rc.Script == nil {
		faults(c, cli, c.Self, gen.RNG(1, "replay"))
		return
	}
	in := filepath.Join(c.Dir, "m.in")
	out := filepath.Join(c.Dir, "m.out")
	jb, _ := json.Marshal([]*Script{rc.Script})
	os.WriteFile(in, jb, 0o644)
	if err := exec.Command("timeout", "-s", "KILL", "120", c.Self, "c16model", in, out).Run(); err != nil {
		c.Inconclusive("model_process_failed")
		return
	}
	var es []Expect
	ob, _ := os.ReadFile(out)
	if json.Unmarshal(ob, &es) != nil || len(es) != 1 {
		c.Inconclusive("model_process_failed")
		return
	}
	es[0].Stdout = string(es[0].StdoutB)
	for i := int64(0); i < 8; i++ {
		// the cut positions of multi-file deliveries are seeded: try several
		checkDelivery(c, cli, rc.Script, &es[0], rc.Delivery, gen.RNG(i, "delivery"), fmt.Sprintf("replay%d", i))
	}
}
