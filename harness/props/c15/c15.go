// Package c15: statement splitting agrees with the lexer and loses nothing.
package c15

import (
	"encoding/json"
	"fmt"
	"strings"

	"github.com/runreveal/pql/parser"

	"verif/harness/gen"
	"verif/harness/mon"
	"verif/harness/pqlref"
)

func init() {
	mon.Register(&mon.Prop{
		ID:       "C15",
		Generate: generate,
		Replay: func(raw json.RawMessage, r *mon.R) {
			var ms mon.Str
			json.Unmarshal(raw, &ms)
			s := string(ms)
			Check(s, r)
		},
		Rule: "inputs: every string of <=5 (quick) / <=6 (thorough) symbols over a 17-symbol alphabet of separators, quotes, escapes, comment and number/operator pieces; " +
			"corpus and multi-statement programs with ';' inserted at every byte offset; unterminated tokens and comments before ';'. " +
			"every code point and invalid byte in front of a ';' inside a comment, string and quoted name. oracle: the cuts fall exactly at the semicolon tokens of the reference tokenizer (which never looks at the implementation); join/count/no-semicolon/sub-list invariants between SplitStatements and Scan, Parse(whole) vs Parse(piece) statement by statement (spans shifted), " +
			"Compile(whole) vs Compile(prefix up to the query piece). non-trivial = distinct input with at least one semicolon token and two other tokens",
		FloorQuick: 100_000, FloorThorough: 1_000_000,
		Assumptions: []string{"error token messages and error texts of Parse are not compared between whole and piece, only success/failure and trees"},
	})
}

var alpha = []string{";", "'", "\"", "`", "\\", "/", "\n", "a", "0", "x", "e", ".", "=", "!", "<", "+", "-"}

// second alphabet: carriage return, BOM and other runes next to separators
var alphaB = []string{";", "\r", "\ufeff", "\ufffd", "\u2020", "'", "\"", "\\", "a", "\n", "/", "`"}

var multi = []string{
	"let a = 1; let b = 'x;y'; T | where a == b // c;d\n | take 1",
	"let s = \"q;\\\";r\"; T | where `c;d` == s and e == 'it''s' | project `x``;y` = 1.5e3;",
	"T | where a != 0x1F and b <= .5 and c >= 5. and d =~ 'x' and e !~ \"y\" | sort by a asc nulls last, b;let z = 2",
	"// only; a comment",
	"// comment without newline;\nT;",
	"T | where a == 'unterminated; | take 1\nU | count",
	"T | where a == `unterminated; | take 1\nU | count",
	"T | where a == \"x\\\n;y\"",
	"let a = 0x; T",
	"let a = 1e; T | where a / 2 == 0 // x",
	"T | join kind=inner (U | where x > 1) on $left.a == $right.b, c; ; ;",
	"T | summarize n = count(), countif(a > 1) by k, j = b % 2 | top 3 by n desc | as R | render barchart with (title='a;b', k=v)",
	";;T;;",
	"// caf\u00e9 \u2013 na\u00efve\n; T | extend a + 1, b * 2 | summarize count(), max(a) by k",
	"let s = '\u00e9\u00e9\u00e9'; T | extend a+1 | project `a+1`",
	"T | where s == '\u65e5\u672c'; U | extend x - 1; V | summarize sum(y) by z",
	"T|where a=~b;U|where a!~b;let x=a<=b",
	"let a = 1;\nlet b = a + 1;\n\nT\n| where x == b\n| extend y = x[1], z = f(x, -1)[2]\n;\nlet c = 3",
	// unnamed columns of every expression kind (their names are cut out of the source) after other statements
	"let lv = 1; // c\n; T | summarize countif(level in ('a', 'b')), count(), sum(x[0]) by k, (j), b % 2 | extend x in (1, 2), y[0], (z), -w, not(v), 'lit', f(a.b, c), a.b.c == 1",
	"let p = 'é'; let q = p; T | extend s =~ 'é', n in (1,\n 2) | summarize max(n in (3)) by strcat(s, 'x') | project-away",
}

func generate(w *mon.W) {
	maxLen := w.Pick(5, 6)
	gen.EnumStrings(alpha, maxLen, func(s string) bool {
		w.Do(s, func(r *mon.R) { Check(s, r) })
		return !w.Stopped()
	})
	gen.EnumStrings(alphaB, maxLen, func(s string) bool {
		w.Do(s, func(r *mon.R) { Check(s, r) })
		return !w.Stopped()
	})
	// characters that become a semicolon, a quote, a backslash, … when cut down to
	// one byte, between statements and inside their tokens
	for _, ch := range gen.LowByteLookalikes {
		for _, tmpl := range []string{"T%sU", "T | count%s U | count", "let a = 1%slet b = 2; T", "T | where s == 'x%sy'; U", "T | where `c%sd` == 1; U", "T // c%sd\n; U", "%s;%s"} {
			s := strings.ReplaceAll(tmpl, "%s", ch)
			w.Do(s, func(r *mon.R) { Check(s, r) })
		}
	}
	// every code point (and the bytes that are not one) in front of a semicolon
	// inside a comment, a string and a quoted name, and between two statements
	{
		var chars []string
		for c := rune(0); c < rune(w.Pick(0x3100, 0x11000)); c++ {
			if c >= 0xd800 && c < 0xe000 {
				continue
			}
			chars = append(chars, string(c))
		}
		for _, c := range []rune{0xfeff, 0xfffd, 0xfffe, 0xffff, 0x10000, 0x1f600, 0xe0001, 0x10ffff} {
			chars = append(chars, string(c))
		}
		for b := 0x80; b < 0x100; b++ {
			chars = append(chars, string([]byte{byte(b)}))
		}
		// multi-byte sequences cut short, over-long and out of range
		for _, lead := range []byte{0xc0, 0xc2, 0xdf, 0xe0, 0xe2, 0xed, 0xef, 0xf0, 0xf4, 0xf5, 0xf7, 0xf8} {
			for _, tail := range []string{"\x80", "\x82", "\xa0", "\xbf", "\x82\x82", "\xa0\x85", "\x90\x80", "\x82\x82\x82", "\xbf\xbf\xbf\xbf"} {
				chars = append(chars, string([]byte{lead})+tail)
			}
		}
		for _, ch := range chars {
			for _, tmpl := range []string{"T // c%s;d\n; U | count", "T | where s == 'x%s;y'; U", "T | where `c%s;d` == 1; U", "T%s;U%s"} {
				s := strings.ReplaceAll(tmpl, "%s", ch)
				w.Do(s, func(r *mon.R) { Check(s, r) })
			}
		}
	}
	// every ordered pair of lexemes (unterminated strings and names with escapes,
	// numbers that stop early, comments among them) as two statements: what the
	// first leaves behind must not reach the second
	for _, a := range gen.Lexicon {
		for _, b := range gen.Lexicon {
			for _, sep := range []string{";", "\n;", " ; T | where x == "} {
				s := a + sep + b
				w.Do(s, func(r *mon.R) { Check(s, r) })
			}
		}
		if w.Stopped() {
			return
		}
	}
	// long runs of faulty and of well-formed statements, then one more statement
	for _, unit := range []string{"!;", "T | where (;", "let = 1;", "T | bogus;", "#;", "T | take 1.5;", "T;", "let a = 1;", ";"} {
		for _, k := range []int{1, 5, 9, 10, 11, 12, 20, 50, 100} {
			for _, tail := range []string{"Events | count", "let z = 1", "T | where (", ""} {
				s := strings.Repeat(unit, k) + tail
				w.Do(s, func(r *mon.R) { Check(s, r) })
			}
		}
	}
	// growing buffers: every prefix of a long source, in order (each call extends the previous one)
	{
		var long strings.Builder
		for _, p := range multi {
			long.WriteString(p)
			long.WriteString(";\n")
		}
		src := long.String() + "T | where msg == 'disk full;retry' | count; `a b;c` | take 1 // x;y\n;"
		step := w.Pick(3, 1)
		for i := 1; i <= len(src) && !w.Stopped(); i += step {
			s := src[:i]
			// not through w.Do's sharding: the sequence matters, every worker runs a slice of it
			if (i/97)%w.NShards == w.Shard {
				w.DoOwned("grow|"+s, func(r *mon.R) { Check(s, r) })
			}
		}
	}
	// the same hostile material behind and in front of enough harmless statements
	// to make the source longer than 1 KiB, 4 KiB and 64 KiB (size-dependent paths)
	for _, pad := range []int{1100, 4200, 66000} {
		if pad > 5000 && w.Quick() {
			continue
		}
		padding := strings.Repeat("T | count;\n", pad/11+1)
		for _, p := range multi {
			for _, s := range []string{padding + p, p + ";\n" + padding, padding[:len(padding)/2] + p + ";" + padding[:len(padding)/2]} {
				s := s
				w.Do(s, func(r *mon.R) { Check(s, r) })
			}
		}
		for _, sep := range []string{"'; ", "`;", "\";", "\\;", "'a\\\n;b'", "\"x\\\n;y\"", "`c\\`;", "// c;\n;", "1e+;", "!;"} {
			s := padding + "U | where a == " + sep + " V | count"
			w.Do(s, func(r *mon.R) { Check(s, r) })
		}
	}
	// one very long line: a string, a quoted name or a comment that holds
	// semicolons lies across the 4 KiB, 8 KiB, 64 KiB marks, and a real
	// semicolon follows
	for _, mark := range []int{4096, 8192, 65536} {
		if mark > 10000 && w.Quick() {
			continue
		}
		for _, shape := range [][2]string{{"'", "'"}, {"\"", "\""}, {"`", "`"}, {"// ", "\n"}} {
			for _, start := range []int{mark - 3000, mark - 10, mark - 1} {
				for _, bodyLen := range []int{20, 4000} {
					lead := "T | where aaaa == 1 or "
					pad := strings.Repeat("b == 2 or ", (start-len(lead))/10+1)
					line := lead + pad[:start-len(lead)] + "s == " + shape[0] + strings.Repeat("x;y ", bodyLen/4) + shape[1] + "; U | count;V"
					s := line
					w.Do(s, func(r *mon.R) { Check(s, r) })
				}
			}
		}
	}
	progs := append(append([]string{}, multi...), gen.Seeds()...)
	for _, p := range progs {
		for i := 0; i <= len(p); i++ {
			for _, ins := range []string{";", ";;", "; ", ";\n"} {
				s := p[:i] + ins + p[i:]
				w.Do(s, func(r *mon.R) { Check(s, r) })
			}
		}
		if w.Stopped() {
			return
		}
	}
	// pairs of corpus programs joined with separators of every kind
	rng := gen.RNG(w.Seed, "c15")
	n := w.Pick(5_000, 200_000)
	seps := []string{";", " ; ", ";\n", "\n;\n", ";;", "; // x\n", ";//x;\n", "'; ", "`;", "\";", "\\;", "!;", "/;", "0x;", "1e;", ".;", "=;", "<;", "1e+;", "2.5E-;", "0e+ ;", "--;", "-- x\n;", "1--1;"}
	for i := 0; i < n && !w.Stopped(); i++ {
		var sb strings.Builder
		k := 1 + rng.Intn(4)
		for j := 0; j < k; j++ {
			sb.WriteString(progs[rng.Intn(len(progs))])
			sb.WriteString(seps[rng.Intn(len(seps))])
		}
		s := sb.String()
		w.Do(s, func(r *mon.R) { Check(s, r) })
	}
}

func hasTokens(toks []parser.Token) bool { return len(toks) > 0 }

// Check decides one input.
func Check(s string, r *mon.R) {
	r.Case = mon.Str(s)
	toks, o := mon.Scan(s)
	parts, o2 := mon.Split(s)
	if o.Anomalous() || o2.Anomalous() {
		r.Inconclusive("foreign_scan_anomaly")
		return
	}
	if j := strings.Join(parts, ";"); j != s {
		r.Violation("", "SplitStatements(%q) = %q: joining the pieces with ';' gives %q, not the source", s, parts, j)
		return
	}
	semis := 0
	for _, t := range toks {
		if t.Kind == parser.TokenSemi {
			semis++
		}
	}
	if len(parts) != semis+1 {
		r.Violation("", "SplitStatements(%q) = %q: %d pieces but the lexer reports %d semicolon tokens", s, parts, len(parts), semis)
		return
	}
	// the cuts fall exactly where the language (the reference tokenizer, which
	// never looks at the implementation) has a semicolon token: not inside a
	// string, a quoted name or a comment, and at every semicolon outside them
	{
		var want []int
		for _, t := range pqlref.Tokens(s) {
			if t.Kind == parser.TokenSemi {
				want = append(want, t.Start)
			}
		}
		var got []int
		o := 0
		for _, p := range parts[:len(parts)-1] {
			o += len(p)
			got = append(got, o)
			o++
		}
		if fmt.Sprint(want) != fmt.Sprint(got) {
			r.Violation("", "SplitStatements(%q) = %q cuts at byte offsets %v; the semicolon tokens of the source (outside strings, quoted names and comments) are at %v", s, parts, got, want)
			return
		}
	}
	off := 0
	gi := 0
	pieceToks := make([][]parser.Token, len(parts))
	for pi, p := range parts {
		pt, o := mon.Scan(p)
		if o.Anomalous() {
			r.Inconclusive("foreign_scan_anomaly")
			return
		}
		pieceToks[pi] = pt
		for _, t := range pt {
			if t.Kind == parser.TokenSemi {
				r.Violation("", "SplitStatements(%q): piece %d %q contains a semicolon token", s, pi, p)
				return
			}
			if gi < len(toks) && toks[gi].Kind == parser.TokenSemi {
				r.Violation("", "SplitStatements(%q): piece %d %q scanned alone has more tokens than it had inside the source", s, pi, p)
				return
			}
			if gi >= len(toks) {
				r.Violation("", "SplitStatements(%q): pieces scanned alone yield more tokens than the source", s)
				return
			}
			g := toks[gi]
			if g.Kind != t.Kind || g.Value != t.Value || g.Span.Start != t.Span.Start+off || g.Span.End != t.Span.End+off {
				r.Violation("", "SplitStatements(%q): piece %d %q scanned alone gives %v %v %q where the source had %v %v %q (offset %d)", s, pi, p, t.Kind, t.Span, t.Value, g.Kind, g.Span, g.Value, off)
				return
			}
			gi++
		}
		// the token after a piece's tokens must be the separating semicolon (or the end)
		if pi < len(parts)-1 {
			if gi >= len(toks) || toks[gi].Kind != parser.TokenSemi {
				r.Violation("", "SplitStatements(%q): piece %d %q scanned alone has fewer tokens than it had inside the source", s, pi, p)
				return
			}
			gi++
		}
		off += len(p) + 1
	}
	if gi != len(toks) {
		r.Violation("", "SplitStatements(%q): the pieces scanned alone have %d tokens fewer than the source", s, len(toks)-gi)
		return
	}

	// Parse agreement
	stmts, perr, po := mon.Parse(s)
	if po.Anomalous() {
		r.Inconclusive("foreign_parse_anomaly")
		return
	}
	allOK := true
	type pp struct {
		stmts []parser.Statement
		off   int
	}
	var nonEmpty []pp
	off = 0
	for pi, p := range parts {
		ps, e, o := mon.Parse(p)
		if o.Anomalous() {
			r.Inconclusive("foreign_parse_anomaly")
			return
		}
		if e != nil {
			allOK = false
		}
		if hasTokens(pieceToks[pi]) {
			nonEmpty = append(nonEmpty, pp{ps, off})
		} else if e != nil || len(ps) != 0 {
			r.Violation("", "Parse of the token-free piece %q of %q gives %d statements, error %v", p, s, len(ps), e)
			return
		}
		off += len(p) + 1
	}
	// whether or not parsing fails, the statements Parse reports are, in order
	// and number, the statements its pieces yield on their own
	{
		var fromPieces []string
		off := 0
		for pi, p := range parts {
			if hasTokens(pieceToks[pi]) {
				ps, _, o := mon.Parse(p)
				if o.Anomalous() {
					r.Inconclusive("foreign_parse_anomaly")
					return
				}
				for _, st := range ps {
					fromPieces = append(fromPieces, pqlref.Dump(st, 0, false))
				}
			}
			off += len(p) + 1
		}
		off = 0
		var whole []string
		si := 0
		// statement i of the whole belongs to the i-th statement-yielding piece
		offsets := []int{}
		for pi, p := range parts {
			if hasTokens(pieceToks[pi]) {
				ps, _, _ := mon.Parse(p)
				for range ps {
					offsets = append(offsets, off)
				}
			}
			off += len(p) + 1
		}
		for _, st := range stmts {
			o := 0
			if si < len(offsets) {
				o = offsets[si]
			}
			_ = o
			whole = append(whole, pqlref.Dump(st, 0, false))
			si++
		}
		if len(whole) != len(fromPieces) {
			r.Violation("", "Parse(%q) reports %d statement(s) (error: %v), its %d pieces parsed on their own yield %d", s, len(whole), perr, len(parts), len(fromPieces))
			return
		}
		for i := range whole {
			if whole[i] != fromPieces[i] {
				r.Violation("", "statement %d of %q parsed in context differs from its piece parsed alone (parse error: %v):\n in context: %s\n alone:      %s", i, s, perr, whole[i], fromPieces[i])
				return
			}
		}
	}
	if (perr == nil) != allOK {
		r.Violation("", "Parse(%q) error=%v but every-piece-parses=%v (pieces %q)", s, perr, allOK, parts)
		return
	}
	if perr == nil {
		if len(stmts) != len(nonEmpty) {
			r.Violation("", "Parse(%q) reports %d statements, the source has %d non-empty pieces", s, len(stmts), len(nonEmpty))
			return
		}
		for i, st := range stmts {
			if len(nonEmpty[i].stmts) != 1 {
				r.Violation("", "Parse of piece %d of %q alone gives %d statements", i, s, len(nonEmpty[i].stmts))
				return
			}
			a := pqlref.Dump(st, nonEmpty[i].off, true)
			b := pqlref.Dump(nonEmpty[i].stmts[0], 0, true)
			if a != b {
				r.Violation("", "statement %d of %q parsed in context differs from its piece parsed alone:\n in context: %s\n alone:      %s", i, s, a, b)
				return
			}
		}
		r.Count("parse_agreements", 1)
		// Compile agreement: whole vs prefix up to the query
		q := -1
		nq := 0
		for i, st := range stmts {
			if _, ok := st.(*parser.TabularExpr); ok {
				nq++
				if q < 0 {
					q = i
				}
			}
		}
		if nq == 1 {
			// find the piece index of statement q
			cnt := -1
			end := 0
			off = 0
			for pi, p := range parts {
				if hasTokens(pieceToks[pi]) {
					cnt++
				}
				off += len(p)
				if cnt == q {
					end = off
					break
				}
				off++
			}
			whole, e1, o1 := mon.Compile(s, nil)
			pre, e2, o2 := mon.Compile(s[:end], nil)
			if o1.Anomalous() || o2.Anomalous() {
				r.Inconclusive("foreign_compile_anomaly")
				return
			}
			if (e1 == nil) != (e2 == nil) || whole != pre {
				r.Violation("", "Compile(%q) = (%q, %v) but compiling the text up to the end of the query statement, %q, gives (%q, %v)", s, whole, e1, s[:end], pre, e2)
				return
			}
			r.Count("compile_agreements", 1)
			// the pieces alone: the let pieces before the query and the query piece,
			// each as it stands, joined by semicolons, mean the same as in context
			// (pieces without tokens — comments, white space — are left out)
			if e1 == nil {
				var kept []string
				cnt2 := -1
				for pi, p := range parts {
					if !hasTokens(pieceToks[pi]) {
						continue
					}
					cnt2++
					if cnt2 > q {
						break
					}
					kept = append(kept, p)
				}
				alone, e3, o3 := mon.Compile(strings.Join(kept, ";"), nil)
				if o3.Anomalous() {
					r.Inconclusive("foreign_compile_anomaly")
					return
				}
				if e3 != nil || alone != whole {
					r.Violation("", "Compile(%q) = %q but compiling its let and query pieces alone, %q, gives (%q, %v)", s, whole, strings.Join(kept, ";"), alone, e3)
					return
				}
				r.Count("pieces_alone_agreements", 1)
			}
		}
	}
	if semis >= 1 && len(toks)-semis >= 2 {
		r.Nontrivial()
		if len(s) < 60 && perr == nil {
			r.Sample(map[string]any{"input": s, "pieces": parts})
		}
	}
}
