// Package c02: tabular operators take effect strictly in pipeline order.
package c02

import (
	"encoding/json"
	"fmt"

	"verif/harness/gen"
	"verif/harness/mon"
	"verif/harness/pipecheck"
	. "verif/harness/pqlref"
)

func init() {
	mon.Register(&mon.Prop{
		ID:       "C02",
		Generate: generate,
		Replay: func(raw json.RawMessage, r *mon.R) {
			var c pipecheck.Case
			json.Unmarshal(raw, &c)
			pipecheck.Check(&c, r, "C02")
		},
		Rule: "every sequence of the ten join-free operators (count, where, sort, take, top, project, extend, summarize, as, render) of length <=3 (quick) / <=4 (thorough), each with seeded well-typed arguments over a tracked schema (named/unnamed columns, 0-2 summarize keys, sort defaults, totalising sort keys in most limited cases), " +
			"plus seeded random sequences up to length 10; each pipeline is compiled by the real compiler, the emitted SQL is executed by an independent sequential table engine on 3 (quick) / 6 (thorough) small database instances (0-6 rows, duplicates, ties, NULLs, empty tables) and compared with a left-to-right reference interpreter " +
			"that returns an ordered partition (sequence of tie groups) so that only orders a sort determines are demanded; a take that cuts a tie group switches to judging columns and row count only. " +
			"non-trivial = distinct pipeline of >=2 operators in which at least one operator had a visible effect on an instance",
		FloorQuick: 1_500, FloorThorough: 40_000,
		Assumptions: []string{
			"the table engine preserves row order through subqueries (the assumption the compiler itself makes) and implements ORDER BY as a stable sort; the reference demands no order among tie groups",
			"aliases that shadow a column in scope, integer literals as sort/group keys, references to ambiguous columns are not generated (DESIGN.md section 7)",
			"instances on which the generated pipeline is ill-typed are not judged",
		},
	})
}

func generate(w *mon.W) {
	pipecheck.InstallSplitObserver(w)
	maxLen := w.Pick(3, 4)
	nInst := w.Pick(3, 6)
	variants := w.Pick(5, 8)
	rng := gen.RNG(w.Seed, "c02")
	kinds := gen.Kinds[:10]
	var rec func(seq []string)
	rec = func(seq []string) {
		if w.Stopped() {
			return
		}
		if len(seq) > 0 {
			for v := 0; v < variants; v++ {
				g := &gen.PipeGen{Rng: rng, DetSort: 80}
				p, _ := g.Pipe("T", seq, 0)
				c := &pipecheck.Case{Pipe: p}
				for i := 0; i < nInst; i++ {
					c.Instances = append(c.Instances, rng.Int63())
				}
				key := Print(&Program{Stmts: []*Stmt{{Pipe: p}}}, Layout{Mode: 0}).Src
				w.Do(key, func(r *mon.R) { pipecheck.Check(c, r, "C02") })
			}
		}
		if len(seq) == maxLen {
			return
		}
		for _, k := range kinds {
			rec(append(seq[:len(seq):len(seq)], k))
		}
	}
	rec(nil)
	n := w.Pick(12_000, 400_000)
	for i := 0; i < n && !w.Stopped(); i++ {
		l := 2 + rng.Intn(9)
		var seq []string
		for j := 0; j < l; j++ {
			seq = append(seq, kinds[rng.Intn(len(kinds))])
		}
		g := &gen.PipeGen{Rng: rng, DetSort: 80}
		p, _ := g.Pipe("T", seq, 0)
		c := &pipecheck.Case{Pipe: p}
		for k := 0; k < nInst; k++ {
			c.Instances = append(c.Instances, rng.Int63())
		}
		key := Print(&Program{Stmts: []*Stmt{{Pipe: p}}}, Layout{Mode: 0}).Src
		w.Do(key, func(r *mon.R) { pipecheck.Check(c, r, "C02") })
	}
	_ = fmt.Sprint
}
