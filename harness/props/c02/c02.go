// Package c02: tabular operators take effect strictly in pipeline order.
package c02

import (
	"encoding/json"
	"fmt"
	"strings"

	"verif/harness/gen"
	"verif/harness/mon"
	"verif/harness/pipecheck"
	. "verif/harness/pqlref"
)

func init() {
	mon.Register(&mon.Prop{
		ID:       "C02",
		Generate: generate,
		Replay: func(raw json.RawMessage, r *mon.R) {
			var c pipecheck.Case
			json.Unmarshal(raw, &c)
			pipecheck.Check(&c, r, "C02")
		},
		Rule: "every sequence of the ten join-free operators (count, where, sort, take, top, project, extend, summarize, as, render) of length <=3 (quick) / <=4 (thorough), each with seeded well-typed arguments over a tracked schema (named/unnamed columns, 0-2 summarize keys, sort defaults, totalising sort keys in most limited cases), " +
			"plus seeded random sequences up to length 10; each pipeline is compiled by the real compiler, the emitted SQL is executed by an independent sequential table engine on 3 (quick) / 6 (thorough) small database instances (0-6 rows, duplicates, ties, NULLs, empty tables) and compared with a left-to-right reference interpreter " +
			"that returns an ordered partition (sequence of tie groups) so that only orders a sort determines are demanded; a take that cuts a tie group switches to judging columns and row count only. " +
			"non-trivial = distinct pipeline of >=2 operators in which at least one operator had a visible effect on an instance",
		FloorQuick: 1_500, FloorThorough: 40_000,
		Assumptions: []string{
			"the table engine preserves row order through subqueries (the assumption the compiler itself makes) and implements ORDER BY as a stable sort; the reference demands no order among tie groups",
			"aliases that shadow a column in scope, integer literals as sort/group keys, references to ambiguous columns are not generated (DESIGN.md section 7)",
			"instances on which the generated pipeline is ill-typed are not judged",
		},
	})
}

func generate(w *mon.W) {
	pipecheck.InstallSplitObserver(w)
	maxLen := w.Pick(3, 4)
	nInst := w.Pick(3, 6)
	variants := w.Pick(5, 8)
	rng := gen.RNG(w.Seed, "c02")
	kinds := gen.Kinds[:10]
	var rec func(seq []string)
	rec = func(seq []string) {
		if w.Stopped() {
			return
		}
		if len(seq) > 0 {
			for v := 0; v < variants; v++ {
				g := &gen.PipeGen{Rng: rng, DetSort: 80}
				p, _ := g.Pipe("T", seq, 0)
				c := &pipecheck.Case{Pipe: p}
				for i := 0; i < nInst; i++ {
					c.Instances = append(c.Instances, rng.Int63())
				}
				key := Print(&Program{Stmts: []*Stmt{{Pipe: p}}}, Layout{Mode: 0}).Src
				w.Do(key, func(r *mon.R) { pipecheck.Check(c, r, "C02") })
			}
		}
		if len(seq) == maxLen {
			return
		}
		for _, k := range kinds {
			rec(append(seq[:len(seq):len(seq)], k))
		}
	}
	rec(nil)
	// cardinality boundaries: every sequence (length <= 3 quick / 4 thorough) of
	// operators whose result has no, one or all rows — take 0/1, top 0/1, count,
	// summarize without and with keys, a predicate that is never / always true,
	// sort, a projection — where "this cannot add or remove rows" shortcuts go wrong
	{
		id := func(n string) *Ident { return &Ident{Name: n} }
		mk := map[string]func() *Op{
			"take0":  func() *Op { return &Op{K: "take", X: Num("0")} },
			"take1":  func() *Op { return &Op{K: "take", X: Num("1")} },
			"take9":  func() *Op { return &Op{K: "take", X: Num("9")} },
			"top0":   func() *Op { return &Op{K: "top", X: Num("0"), Terms: []SortTerm{{X: Name("id")}}} },
			"top1":   func() *Op { return &Op{K: "top", X: Num("1"), Terms: []SortTerm{{X: Name("id"), Dir: "asc"}}} },
			"count":  func() *Op { return &Op{K: "count"} },
			"sumall": func() *Op { return &Op{K: "summarize", Cols: []Col{{Name: id("id"), X: Call("count")}}} },
			"sumby": func() *Op {
				return &Op{K: "summarize", Cols: []Col{{Name: id("n"), X: Call("count")}}, HasBy: true, By: []Col{{Name: id("id"), X: Bin("%", Name("id"), Num("2"))}}}
			},
			"never":  func() *Op { return &Op{K: "where", X: Bin("<", Name("id"), Num("0"))} },
			"always": func() *Op { return &Op{K: "where", X: Bin(">=", Name("id"), Num("0"))} },
			"sort":   func() *Op { return &Op{K: "sort", Terms: []SortTerm{{X: Name("id"), Dir: "desc"}}} },
			"proj":   func() *Op { return &Op{K: "project", Cols: []Col{{Name: id("id")}}} },
			// the key column defined anew with the order of its values reversed
			"rebind": func() *Op { return &Op{K: "project", Cols: []Col{{Name: id("id"), X: Bin("-", Num("0"), Name("id"))}}} },
		}
		// the distinct values of a nullable key (no aggregates): the NULL group is a group
		mk["keys"] = func() *Op { return &Op{K: "summarize", HasBy: true, By: []Col{{X: Name("k")}}} }
		needsID := map[string]bool{"top0": true, "top1": true, "sumby": true, "never": true, "always": true, "sort": true, "proj": true, "rebind": true}
		names := []string{"take0", "take1", "take9", "top0", "top1", "count", "sumall", "sumby", "never", "always", "sort", "proj", "rebind", "keys"}
		var brec func(seq []string)
		brec = func(seq []string) {
			if w.Stopped() {
				return
			}
			if len(seq) > 0 {
				p := &Pipe{Table: Ident{Name: "T"}}
				ok := true
				hasID, hasK := true, true
				for _, n := range seq {
					if !hasID && needsID[n] || !hasK && n == "keys" {
						ok = false // after count the only column is count(): operators over id have no meaning
					}
					switch n {
					case "proj", "rebind", "sumall", "sumby", "count", "keys":
						hasK = false
					}
					p.Ops = append(p.Ops, mk[n]())
					if n == "count" || n == "keys" {
						hasID = false
					}
					if n == "sumall" {
						hasID = true // its one column is called id
					}
				}
				if ok {
					c := &pipecheck.Case{Pipe: p}
					for i := 0; i < nInst; i++ {
						c.Instances = append(c.Instances, int64(1000*len(seq)+i+7))
					}
					w.Do("card|"+strings.Join(seq, ","), func(r *mon.R) { pipecheck.Check(c, r, "C02") })
				}
			}
			if len(seq) == maxLen {
				return
			}
			for _, n := range names {
				brec(append(seq[:len(seq):len(seq)], n))
			}
		}
		brec(nil)
	}
	// wide operators (1..17 and near powers of two many elements), alone and followed by others
	for _, kind := range []string{"project", "extend", "sort", "summarize"} {
		for _, sz := range gen.WideSizes {
			if sz > 70 {
				continue
			}
			for v := 0; v < 2; v++ {
				g := &gen.PipeGen{Rng: rng, DetSort: 80}
				s := append(gen.Schema{}, gen.BaseSchemas["T"]...)
				p := &Pipe{Table: Ident{Name: "T"}}
				if v == 1 {
					var op0 *Op
					op0, s = g.Op("where", s, 0)
					p.Ops = append(p.Ops, op0)
				}
				wop, s2 := g.WideOp(kind, sz, s)
				p.Ops = append(p.Ops, wop)
				if v == 1 {
					for _, k := range []string{"sort", "take"} {
						var op1 *Op
						op1, s2 = g.Op(k, s2, 0)
						p.Ops = append(p.Ops, op1)
					}
				}
				c := &pipecheck.Case{Pipe: p}
				for i := 0; i < nInst; i++ {
					c.Instances = append(c.Instances, rng.Int63())
				}
				w.Do(fmt.Sprint("wide|", kind, "|", sz, "|", v), func(r *mon.R) { pipecheck.Check(c, r, "C02") })
			}
		}
	}
	n := w.Pick(12_000, 400_000)
	for i := 0; i < n && !w.Stopped(); i++ {
		l := 2 + rng.Intn(9)
		var seq []string
		for j := 0; j < l; j++ {
			seq = append(seq, kinds[rng.Intn(len(kinds))])
		}
		g := &gen.PipeGen{Rng: rng, DetSort: 80}
		var lets []pipecheck.Let
		if i%6 == 0 {
			// let bindings used as row counts and inside expressions
			lets = []pipecheck.Let{{Name: "pn", X: Num([]string{"1", "2", "3"}[rng.Intn(3)])}, {Name: "pthr", X: Parenthesize(Bin("-", Name("pn"), Num("1")), nil)}}
			g.Bound = map[gen.Ty][]string{gen.TInt: {"pn", "pthr"}}
			if rng.Intn(2) == 0 {
				lets = append(lets, pipecheck.Let{Name: "psv", X: StrLit("Ab", false)}, pipecheck.Let{Name: "pneg", X: Un("-", Num("1"))})
				g.Bound[gen.TStr] = []string{"psv"}
				g.Bound[gen.TInt] = append(g.Bound[gen.TInt], "pneg")
			}
		}
		p, _ := g.Pipe("T", seq, 0)
		if i%5 == 1 && len(p.Ops) > 0 {
			// write one operator twice, the second time with one detail changed
			// (a direction, a null placement, a count): the second one governs
			k := rng.Intn(len(p.Ops))
			cp := *p.Ops[k]
			ok := true
			switch cp.K {
			case "sort", "top":
				cp.Terms = append([]SortTerm{}, cp.Terms...)
				t := &cp.Terms[rng.Intn(len(cp.Terms))]
				switch rng.Intn(3) {
				case 0:
					t.Nulls = map[string]string{"": "first", "first": "last", "last": "first"}[t.Nulls]
					if t.Dir == "asc" && t.Nulls == "first" {
						t.Nulls = "last"
					}
				case 1:
					t.Dir = map[string]string{"": "asc", "asc": "desc", "desc": "asc"}[t.Dir]
				default:
					if cp.K == "top" {
						cp.X = Num([]string{"0", "1", "2", "5"}[rng.Intn(4)])
					} else {
						t.Nulls = map[string]string{"": "last", "first": "", "last": ""}[t.Nulls]
					}
				}
			case "take":
				cp.X = Num([]string{"0", "1", "2", "3", "100"}[rng.Intn(5)])
			case "where":
				cp.X = Call("not", cp.X)
			default:
				ok = false
			}
			if ok {
				p.Ops = append(p.Ops[:k+1:k+1], append([]*Op{&cp}, p.Ops[k+1:]...)...)
			}
		}
		if i%5 == 0 && len(p.Ops) > 0 {
			// write one operator twice, verbatim, where that is well-formed
			k := rng.Intn(len(p.Ops))
			switch p.Ops[k].K {
			case "where", "sort", "take", "top", "count":
				p.Ops = append(p.Ops[:k+1:k+1], append([]*Op{p.Ops[k]}, p.Ops[k+1:]...)...)
			case "project":
				self := true
				for _, c := range p.Ops[k].Cols {
					if c.X != nil && !(c.X.K == "bin" || c.X.K == "call") {
						self = false
					}
				}
				names := map[string]bool{}
				for _, c := range p.Ops[k].Cols {
					names[c.Name.Name] = true
				}
				for _, c := range p.Ops[k].Cols {
					if c.X != nil {
						for _, col := range gen.ColsOf(c.X, nil) {
							if !names[col] {
								self = false
							}
						}
					}
				}
				if self {
					p.Ops = append(p.Ops[:k+1:k+1], append([]*Op{p.Ops[k]}, p.Ops[k+1:]...)...)
				}
			}
		}
		c := &pipecheck.Case{Pipe: p, Lets: lets}
		for k := 0; k < nInst; k++ {
			c.Instances = append(c.Instances, rng.Int63())
		}
		key := fmt.Sprint(len(lets), "|", Print(&Program{Stmts: []*Stmt{{Pipe: p}}}, Layout{Mode: 0}).Src)
		w.Do(key, func(r *mon.R) { pipecheck.Check(c, r, "C02") })
	}
}
