// Package c07: the parser builds the tree the documented grammar dictates.
package c07

import (
	"encoding/json"
	"fmt"

	"github.com/runreveal/pql/parser"

	"verif/harness/gen"
	"verif/harness/mon"
	. "verif/harness/pqlref"
)

// Case is a program (as a syntax tree) with the layouts to try.
type Case struct {
	Prog    *Program `json:"prog"`
	Layouts int      `json:"layouts"`
	Seed    int64    `json:"seed"`
	// Flat, when set, is an operator/operand sequence whose expected tree is
	// computed by the shunting-yard reference.
	Flat *FlatExpr `json:"flat,omitempty"`
}

func init() {
	mon.Register(&mon.Prop{
		ID:       "C07",
		Generate: generate,
		Replay: func(raw json.RawMessage, r *mon.R) {
			var c Case
			json.Unmarshal(raw, &c)
			Check(&c, r)
		},
		Rule: "(a) every operator sequence u0 o1 u1 .. on un with n<=3 (quick) / n<=4 (thorough) over the 16 binary operators (in with a list) and six operand shapes, " +
			"expected tree from a shunting-yard reference; (b) seeded random full programs (all eleven operators + join, every optional part, lets, empty statements) printed in three layouts " +
			"(single spaces, tight, random spaces/tabs/newlines/comments/synonyms), expected tree built by the printer; (c) all layouts must parse to the same tree. " +
			"Comparison is field by field with positions reduced to present/absent. non-trivial = distinct program with at least two operator nodes",
		FloorQuick: 20_000, FloorThorough: 300_000,
		Assumptions: []string{
			"the generator's grammar is Appendix A of DESIGN.md: one sign, one index suffix, calls on bare single names, a bare literal row count is an integer literal, a bare table name is not `let`",
			"number literal values are compared numerically, not textually",
		},
	})
}

var operandShapes = []func(i int) *E{
	func(i int) *E { return Name(fmt.Sprintf("a%d", i)) },
	func(i int) *E { return Un("-", Name(fmt.Sprintf("b%d", i))) },
	func(i int) *E { return Idx(Name(fmt.Sprintf("c%d", i)), Num("1")) },
	func(i int) *E { return Call("f", Name(fmt.Sprintf("x%d", i))) },
	func(i int) *E { return Paren(Name(fmt.Sprintf("d%d", i))) },
	func(i int) *E { return Un("-", Idx(Call("g", Name("y")), Num("2"))) },
}

func generate(w *mon.W) {
	maxN := w.Pick(3, 4)
	// (a) exhaustive operator sequences
	var rec func(seq []string)
	rec = func(seq []string) {
		if w.Stopped() {
			return
		}
		if len(seq) > 0 {
			for off := 0; off < len(operandShapes); off++ {
				f := &FlatExpr{InList: []*E{Num("1"), Name("z")}}
				oi := off
				f.Operands = append(f.Operands, operandShapes[oi%len(operandShapes)](0))
				oi++
				for i, op := range seq {
					f.Ops = append(f.Ops, op)
					if op != "in" {
						f.Operands = append(f.Operands, operandShapes[oi%len(operandShapes)](i+1))
						oi++
					}
				}
				c := &Case{Flat: f, Layouts: 1}
				key := fmt.Sprintf("flat|%d|%v", off, seq)
				w.Do(key, func(r *mon.R) { Check(c, r) })
			}
		}
		if len(seq) == maxN {
			return
		}
		for _, op := range BinOps {
			rec(append(seq[:len(seq):len(seq)], op))
		}
	}
	rec(nil)

	// wide constructs: every list-like construct with 1..17 and near-power-of-two many elements
	for _, kind := range gen.WideKinds {
		for _, n := range gen.WideSizes {
			if n > 130 && w.Quick() {
				continue
			}
			prog := gen.Wide(kind, n)
			c := &Case{Prog: prog, Layouts: 2, Seed: int64(n)}
			w.Do(fmt.Sprint("wide|", kind, "|", n), func(r *mon.R) { Check(c, r) })
		}
	}
	// (b)/(c) random programs
	rng := gen.RNG(w.Seed, "c07")
	g := &gen.Syn{Rng: rng}
	n := w.Pick(15_000, 400_000)
	for i := 0; i < n && !w.Stopped(); i++ {
		var prog *Program
		switch i % 4 {
		case 0: // single where with a deep expression
			prog = Query("T", &Op{K: "where", X: g.Surface(g.Expr(2+rng.Intn(5)), 5)})
		case 1: // one operator of each kind in turn
			kinds := []string{"count", "where", "sort", "take", "top", "project", "extend", "summarize", "join", "as", "render"}
			prog = &Program{Stmts: []*Stmt{{Pipe: &Pipe{Table: Ident{Name: "T"}, Ops: []*Op{g.Op(kinds[(i/4)%len(kinds)], 2, 2)}}}}}
		default:
			prog = g.Program(3, 4, 1+rng.Intn(3))
		}
		c := &Case{Prog: prog, Layouts: 3, Seed: rng.Int63()}
		key := "prog|" + Print(prog, Layout{Mode: 0}).Src
		w.Do(key, func(r *mon.R) { Check(c, r) })
	}
}

// the previous parse result and its dump: a later Parse must not change it
var prevStmts []parser.Statement
var prevDump, prevSrc string

// Check decides one case.
func Check(c *Case, r *mon.R) {
	r.Case = c
	prog := c.Prog
	if c.Flat != nil {
		tree := ShuntingYard(*c.Flat)
		prog = Query("T", &Op{K: "where", X: tree})
	}
	var first string
	var firstSrc string
	for l := 0; l < c.Layouts || l == 0; l++ {
		lay := Layout{Mode: l, Rng: gen.RNG(c.Seed, fmt.Sprint("lay", l))}
		pr := Print(prog, lay)
		stmts, err, o := mon.Parse(pr.Src)
		if o.Anomalous() {
			r.Inconclusive("foreign_parse_anomaly")
			return
		}
		if err != nil {
			r.Violation("", "a program of the grammar is rejected: Parse(%q): %v", pr.Src, err)
			return
		}
		if prevStmts != nil {
			if d := Dump(prevStmts, 0, true); d != prevDump {
				r.Violation("", "the tree returned by Parse(%q) changed when Parse(%q) was called afterwards:\n was: %s\n now: %s", prevSrc, pr.Src, prevDump, d)
				return
			}
		}
		prevStmts, prevSrc, prevDump = stmts, pr.Src, Dump(stmts, 0, true)
		if d := Diff(stmts, pr.AST, false); d != "" {
			r.Violation("", "Parse(%q) does not build the tree the grammar prescribes: at %s\n got:  %s\n want: %s", pr.Src, d, Dump(stmts, 0, false), Dump(pr.AST, 0, false))
			return
		}
		d := Dump(stmts, 0, false)
		if l == 0 {
			first, firstSrc = d, pr.Src
		} else if d != first {
			// synonyms change nothing in the tree, so dumps must agree
			r.Violation("", "layout changes the tree: %q and %q parse differently:\n %s\n %s", firstSrc, pr.Src, first, d)
			return
		}
		for _, s := range stmts {
			r.SetAdd("statement_types", fmt.Sprintf("%T", s))
			if t, ok := s.(*parser.TabularExpr); ok {
				for _, op := range t.Operators {
					r.SetAdd("operator_types", fmt.Sprintf("%T", op))
				}
			}
		}
	}
	r.Count("layouts_parsed", int64(c.Layouts))
	if prog.Weight() >= 3 || (c.Flat != nil && len(c.Flat.Ops) >= 2) {
		r.Nontrivial()
		if len(firstSrc) < 90 {
			r.Sample(map[string]any{"source": firstSrc, "tree": first})
		}
	}
}
