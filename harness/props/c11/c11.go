// Package c11: tree traversal reaches every node exactly once and never fails.
package c11

import (
	"encoding/json"
	"fmt"
	"strings"

	"github.com/runreveal/pql/parser"

	"verif/harness/gen"
	"verif/harness/mon"
	. "verif/harness/pqlref"
)

type Case struct {
	Prog *Program `json:"prog,omitempty"`
	// Raw: an arbitrary source; judged only if Parse accepts it.
	Raw *mon.Str `json:"raw,omitempty"`
}

func init() {
	mon.Register(&mon.Prop{
		ID:       "C11",
		Generate: generate,
		Replay: func(raw json.RawMessage, r *mon.R) {
			var c Case
			json.Unmarshal(raw, &c)
			Check(&c, r)
		},
		Rule: "seeded random programs of the whole grammar (every node type in every child slot: parenthesised expressions everywhere, unnamed extend/summarize columns, render properties, nested joins, lets, statement lists). " +
			"oracle: a reflection walk over exported fields lists all reachable nodes with parent links; Walk with a recording visitor must not panic, never pass a nil (or typed-nil) node, visit every identifier and expression " +
			"(function names and join kinds excepted) exactly once and after its nearest visited ancestor; then for every node (all for small trees, a seeded sample for large ones) Walk is re-run with a visitor returning false there: " +
			"the visited set must be the previous one minus that node's proper descendants. non-trivial = distinct program with at least three operator nodes",
		FloorQuick: 10_000, FloorThorough: 150_000,
	})
}

func generate(w *mon.W) {
	rng := gen.RNG(w.Seed, "c11")
	g := &gen.Syn{Rng: rng}
	n := w.Pick(15_000, 300_000)
	for _, kind := range gen.WideKinds {
		sizes := gen.WideSizes
		switch kind {
		case "in", "in-lits", "in-consts", "wheres", "and", "plus", "project", "lets", "call-args", "statements":
			// lists and chains of a thousand and more elements: the traversal's
			// work list is as long as the widest level, not as the deepest path
			sizes = append(append([]int{}, sizes...), 999, 1000, 1001, 1025, 2049)
		}
		for _, sz := range sizes {
			if sz > 130 && sz < 999 && w.Quick() {
				continue
			}
			c := &Case{Prog: gen.Wide(kind, sz)}
			w.Do(fmt.Sprint("wide|", kind, "|", sz), func(r *mon.R) { Check(c, r) })
		}
	}
	var corpus []string
	for i := 0; i < n && !w.Stopped(); i++ {
		prog := gen.SynProgram(g, i)
		c := &Case{Prog: prog}
		src := Print(prog, Layout{Mode: 0}).Src
		if len(corpus) < 400 && len(src) < 300 {
			corpus = append(corpus, src)
		}
		w.Do(src, func(r *mon.R) { Check(c, r) })
	}
	// whatever Parse accepts must be walkable: every single-token deletion,
	// duplication and punctuation insertion of the first programs of the corpus
	// and of small wide constructs (exhaustive, so that an accepted oddity such
	// as a doubled or trailing comma in any list is certainly tried)
	{
		var base []string
		for i := 0; i < len(corpus) && len(base) < w.Pick(40, 300); i++ {
			if len(gen.Lexemes(corpus[i])) <= 40 {
				base = append(base, corpus[i])
			}
		}
		for _, kind := range gen.WideKinds {
			for _, sz := range []int{1, 2, 3} {
				base = append(base, Print(gen.Wide(kind, sz), Layout{Mode: 0}).Src)
			}
		}
		raw := func(s string) {
			ms := mon.Str(s)
			c := &Case{Raw: &ms}
			w.Do("raw|"+s, func(r *mon.R) { Check(c, r) })
		}
		punct := []string{",", "(", ")", "[", "]", "=", "|", ";", ".", "-", "by", "x", "1", "'s'", "asc", "nulls", "with", "kind", "on"}
		for _, src := range base {
			parts := gen.Lexemes(src)
			join := func(p []string) string { return strings.Join(p, " ") }
			for i := range parts {
				raw(join(append(append([]string{}, parts[:i]...), parts[i+1:]...)))
				raw(join(append(append(append([]string{}, parts[:i]...), parts[i]), parts[i:]...)))
			}
			for i := 0; i <= len(parts); i++ {
				for _, v := range punct {
					raw(join(append(append(append([]string{}, parts[:i]...), v), parts[i:]...)))
				}
			}
			if w.Stopped() {
				return
			}
		}
	}
	corpus = append(corpus, gen.Seeds()...)
	mrng := gen.RNG(w.Seed, "c11mut")
	m := w.Pick(60_000, 1_500_000)
	for i := 0; i < m && !w.Stopped(); i++ {
		var s string
		if i%4 == 0 {
			s = gen.MutateBytes(mrng, corpus[mrng.Intn(len(corpus))])
		} else {
			s = gen.MutateTokens(mrng, corpus[mrng.Intn(len(corpus))])
		}
		ms := mon.Str(s)
		c := &Case{Raw: &ms}
		w.Do("raw|"+s, func(r *mon.R) { Check(c, r) })
	}
}

// Check decides one program.
func Check(c *Case, r *mon.R) {
	r.Case = c
	var src string
	if c.Raw != nil {
		src = string(*c.Raw)
	} else {
		src = Print(c.Prog, Layout{Mode: 0}).Src
	}
	stmts, err, o := mon.Parse(src)
	if o.Anomalous() {
		r.Inconclusive("foreign_parse")
		return
	}
	if err != nil {
		if c.Raw != nil {
			r.Inconclusive("mutant_rejected")
		} else {
			r.Inconclusive("foreign_parse")
		}
		return
	}
	if c.Raw != nil {
		r.Count("accepted_mutants_walked", 1)
	}
	rng := gen.RNG(int64(len(src)), src)
	for si, st := range stmts {
		nodes := Reach(st)
		byPtr := map[uintptr][]*RNode{}
		for _, n := range nodes {
			byPtr[n.Ptr] = append(byPtr[n.Ptr], n)
		}
		find := func(n parser.Node) *RNode {
			for _, c := range byPtr[NodePtr(n)] {
				if fmt.Sprintf("%T", c.Node) == fmt.Sprintf("%T", n) {
					return c
				}
			}
			return nil
		}
		var order []*RNode
		var bad string
		before := ""
		if len(nodes) <= 300 {
			before = Dump([]parser.Statement{st}, 0, true)
		}
		defer func(st parser.Statement, si int) {
			// a traversal only reads the tree: it is the same afterwards
			if before != "" && !r.Violated() {
				if after := Dump([]parser.Statement{st}, 0, true); after != before {
					r.Violation("", "the traversals of statement %d of %q changed the tree:\n before: %s\n after:  %s", si, src, before, after)
				}
			}
		}(st, si)
		o := mon.Walk(st, func(n parser.Node) bool {
			if IsNilNode(n) {
				if bad == "" {
					bad = fmt.Sprintf("the visitor was called with a nil %T", n)
				}
				return false
			}
			rn := find(n)
			if rn == nil {
				if bad == "" {
					bad = fmt.Sprintf("the visitor was called with a %T that is not part of the tree", n)
				}
				return true
			}
			order = append(order, rn)
			return true
		})
		if o.Anomalous() {
			r.Violation("", "Walk of statement %d of %q: %s\n%s", si, src, o.String(), o.Stack)
			return
		}
		if bad != "" {
			r.Violation("", "Walk of statement %d of %q: %s", si, src, bad)
			return
		}
		pos := map[*RNode]int{}
		for i, n := range order {
			if _, dup := pos[n]; dup {
				r.Violation("", "Walk of statement %d of %q visits the %s at %v twice", si, src, n.TypeName, n.Node.Span())
				return
			}
			pos[n] = i
		}
		for _, n := range nodes {
			if _, ok := pos[n]; !ok && n.Required {
				r.Violation("", "Walk of statement %d of %q never visits the %s %q at %v (field %s of %s)", si, src, n.TypeName, spanText(src, n.Node), n.Node.Span(), n.Field, parentName(n))
				return
			}
			r.SetAdd("node_types_walked", n.TypeName)
			if n.Parent != nil {
				r.SetAdd("child_slots", n.Parent.TypeName+"."+n.Field+":"+n.TypeName)
			}
		}
		for n, i := range pos {
			for p := n.Parent; p != nil; p = p.Parent {
				if j, ok := pos[p]; ok {
					if j > i {
						r.Violation("", "Walk of statement %d of %q visits the %s at %v before its ancestor %s", si, src, n.TypeName, n.Node.Span(), p.TypeName)
						return
					}
					break
				}
			}
		}
		// re-entrancy: a visitor may itself walk the subtree it is given (twice);
		// the outer traversal must be unaffected (quadratic work for the
		// visitor: only on trees of moderate size)
		if len(order) <= 400 {
			var outer []*RNode
			inner := 0
			o := mon.Walk(st, func(n parser.Node) bool {
				if IsNilNode(n) {
					return false
				}
				if rn := find(n); rn != nil {
					outer = append(outer, rn)
				}
				for k := 0; k < 2; k++ {
					parser.Walk(n, func(m parser.Node) bool { inner++; return true })
				}
				return true
			})
			if o.Anomalous() {
				r.Violation("", "Walk of statement %d of %q with a visitor that walks each node's subtree itself: %s\n%s", si, src, o.String(), o.Stack)
				return
			}
			if len(outer) != len(order) {
				r.Violation("", "Walk of statement %d of %q visits %d nodes when the visitor itself calls Walk on each node, %d otherwise", si, src, len(outer), len(order))
				return
			}
			for i := range outer {
				if outer[i] != order[i] {
					r.Violation("", "Walk of statement %d of %q visits nodes in a different order when the visitor itself calls Walk (position %d: %s vs %s)", si, src, i, outer[i].TypeName, order[i].TypeName)
					return
				}
			}
			r.Count("nested_walks_checked", 1)
		}
		// a walk abandoned by a panicking visitor (recovered by the caller) must not affect later walks
		if len(order) > 2 {
			stopAt := order[rng.Intn(len(order))]
			func() {
				defer func() { recover() }()
				parser.Walk(st, func(n parser.Node) bool {
					if !IsNilNode(n) && find(n) == stopAt {
						panic("visitor gives up")
					}
					return true
				})
			}()
			var again []*RNode
			o := mon.Walk(st, func(n parser.Node) bool {
				if IsNilNode(n) {
					return false
				}
				if rn := find(n); rn != nil {
					again = append(again, rn)
				} else {
					again = append(again, nil)
				}
				return true
			})
			if o.Anomalous() {
				r.Violation("", "Walk of statement %d of %q after an earlier Walk was abandoned by a panicking visitor: %s", si, src, o.String())
				return
			}
			if len(again) != len(order) {
				r.Violation("", "Walk of statement %d of %q visits %d nodes after an earlier Walk was abandoned by a panicking visitor, %d otherwise", si, src, len(again), len(order))
				return
			}
			for i := range again {
				if again[i] != order[i] {
					r.Violation("", "Walk of statement %d of %q visits different nodes after an earlier Walk was abandoned by a panicking visitor (position %d)", si, src, i)
					return
				}
			}
			r.Count("abandoned_walks_checked", 1)
		}
		// pruning
		cand := order
		if len(cand) > 60 {
			cand = nil
			for k := 0; k < 40; k++ {
				cand = append(cand, order[rng.Intn(len(order))])
			}
		}
		for _, cut := range cand {
			seen := map[*RNode]bool{}
			var twice *RNode
			o := mon.Walk(st, func(n parser.Node) bool {
				if IsNilNode(n) {
					return false
				}
				rn := find(n)
				if rn != nil {
					if seen[rn] && twice == nil {
						twice = rn
					}
					seen[rn] = true
				}
				return rn != cut
			})
			if o.Anomalous() {
				r.Violation("", "Walk of statement %d of %q with a visitor returning false at the %s: %s", si, src, cut.TypeName, o.String())
				return
			}
			if twice != nil {
				r.Violation("", "Walk of statement %d of %q with the visitor returning false at the %s at %v visits the %s at %v twice", si, src, cut.TypeName, cut.Node.Span(), twice.TypeName, twice.Node.Span())
				return
			}
			for _, n := range order {
				want := !IsDescendant(n, cut)
				if seen[n] != want {
					r.Violation("", "Walk of statement %d of %q with the visitor returning false at the %s at %v: the %s at %v visited=%v, expected visited=%v (skip exactly the descendants)",
						si, src, cut.TypeName, cut.Node.Span(), n.TypeName, n.Node.Span(), seen[n], want)
					return
				}
			}
			r.Count("prunings_checked", 1)
		}
		// histories on one tree: on a freshly parsed copy the first walk skips
		// below every node of one type, the second is a full walk; what a walk
		// visits must not depend on the walks the tree has seen before
		{
			typesSeen := map[string]bool{}
			var types []string
			for _, n := range order {
				if !typesSeen[n.TypeName] {
					typesSeen[n.TypeName] = true
					types = append(types, n.TypeName)
				}
			}
			if si >= 3 {
				types = nil // the source is parsed afresh for every history: the first statements only
			}
			if len(types) > 4 {
				rng.Shuffle(len(types), func(i, j int) { types[i], types[j] = types[j], types[i] })
				types = types[:4]
			}
			for _, ty := range types {
				stmts2, err2, o2 := mon.Parse(src)
				if o2.Anomalous() || err2 != nil || len(stmts2) != len(stmts) {
					r.Violation("", "Parse(%q) does not give the same outcome a second time", src)
					return
				}
				st2 := stmts2[si]
				nodes2 := Reach(st2)
				by2 := map[uintptr][]*RNode{}
				for _, n := range nodes2 {
					by2[n.Ptr] = append(by2[n.Ptr], n)
				}
				find2 := func(n parser.Node) *RNode {
					for _, c := range by2[NodePtr(n)] {
						if fmt.Sprintf("%T", c.Node) == fmt.Sprintf("%T", n) {
							return c
						}
					}
					return nil
				}
				seen := map[*RNode]bool{}
				dup := ""
				o := mon.Walk(st2, func(n parser.Node) bool {
					if IsNilNode(n) {
						return false
					}
					rn := find2(n)
					if rn == nil {
						return true
					}
					if seen[rn] && dup == "" {
						dup = fmt.Sprintf("the %s at %v", rn.TypeName, rn.Node.Span())
					}
					seen[rn] = true
					return rn.TypeName != ty
				})
				if dup != "" {
					r.Violation("", "first Walk of statement %d of %q with a visitor returning false at every %s visits %s twice", si, src, ty, dup)
					return
				}
				if o.Anomalous() {
					r.Violation("", "first Walk of statement %d of %q with a visitor returning false at every %s: %s", si, src, ty, o.String())
					return
				}
				var full []*RNode
				o = mon.Walk(st2, func(n parser.Node) bool {
					if IsNilNode(n) {
						return false
					}
					full = append(full, find2(n))
					return true
				})
				if o.Anomalous() {
					r.Violation("", "second Walk of statement %d of %q: %s", si, src, o.String())
					return
				}
				if len(full) != len(order) {
					r.Violation("", "a full Walk of statement %d of %q visits %d nodes when the tree's first Walk had skipped below every %s, %d on a tree walked in full first", si, src, len(full), ty, len(order))
					return
				}
				for i := range full {
					if full[i] == nil || full[i].TypeName != order[i].TypeName || full[i].Node.Span() != order[i].Node.Span() {
						r.Violation("", "a full Walk of statement %d of %q visits different nodes when the tree's first Walk had skipped below every %s (position %d)", si, src, ty, i)
						return
					}
				}
				for _, n := range full {
					under := false
					for p := n.Parent; p != nil; p = p.Parent {
						if p.TypeName == ty && seen[p] {
							under = true
						}
					}
					if seen[n] == under {
						r.Violation("", "first Walk of statement %d of %q with the visitor returning false at every %s: the %s at %v visited=%v (skip exactly the descendants)", si, src, ty, n.TypeName, n.Node.Span(), seen[n])
						return
					}
				}
				r.Count("walk_histories_checked", 1)
			}
		}
		r.Count("nodes_visited", int64(len(order)))
	}
	if (c.Prog != nil && c.Prog.Weight() >= 3) || (c.Raw != nil && len(gen.Lexemes(src)) >= 6) {
		r.Nontrivial()
		if len(src) < 80 && c.Prog != nil {
			r.Sample(map[string]any{"source": src})
		}
	}
}

func parentName(n *RNode) string {
	if n.Parent == nil {
		return "the root"
	}
	return n.Parent.TypeName
}

func spanText(src string, n parser.Node) string {
	sp := n.Span()
	if sp.IsValid() && sp.End <= len(src) {
		return src[sp.Start:sp.End]
	}
	return ""
}
