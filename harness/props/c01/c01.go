// Package c01: scalar expressions keep their meaning when translated to SQL.
package c01

import (
	"encoding/json"

	"verif/harness/exprpos"
	"verif/harness/gen"
	"verif/harness/mon"
	. "verif/harness/pqlref"
	"verif/harness/sqlmini"
	"verif/harness/val"
)

// Case is one expression meaning at one position.
type Case struct {
	X    *E     `json:"x"`
	Pos  string `json:"pos"` // where project extend extend-unnamed summarize-agg summarize-key sort top take let join-on
	Seed int64  `json:"seed"`
}

func init() {
	mon.Register(&mon.Prop{
		ID:       "C01",
		Generate: generate,
		Replay: func(raw json.RawMessage, r *mon.R) {
			var c Case
			json.Unmarshal(raw, &c)
			Check(&c, r)
		},
		Rule: "exhaustive: every nominally well-typed expression tree with <=2 (quick) / <=3 (thorough) operator nodes over the 15 binary operators, in, signs, indexing, all ten built-ins and pass-through calls, at where/extend positions; " +
			"seeded random trees (depth <= 7, 10% ill-typed sub-expressions) at every expression position (where, project, extend named/unnamed, summarize aggregate/key, sort, top, take, let, join on). " +
			"Each tree is compiled with minimal parentheses and with random redundant ones; the emitted statement is parsed by an independent SQL parser with the target dialect's precedence, the expression at that position is " +
			"evaluated on every row of the product of the referenced columns' domains (NULLs and one off-type value included, <=600 rows) and compared with a reference evaluator reading the PQL tree; type errors are observable outcomes. " +
			"non-trivial = distinct tree with >=2 operator nodes taking at least two different values over the rows",
		FloorQuick: 5_000, FloorThorough: 200_000,
		Assumptions: []string{
			"SQL is read with ClickHouse operator precedence (OR < AND < NOT < IS NULL < comparison/IN < || < + - < * / % < unary minus < [ ]); PostgreSQL agrees on everything the compiler emits",
			"functions the models do not interpret are deterministic injective functions of name and argument values on both sides",
			"join conditions are compared as predicates (TRUE or not), since the documented plain '=' between $left and $right columns differs from '==' only in NULL vs FALSE",
			"value semantics: Appendix B of DESIGN.md (shared primitives; what differs between the sides is which primitive is applied to which operands in which order)",
		},
	})
}

var positions = exprpos.Positions

func typeFor(pos string, rng interface{ Intn(int) int }) gen.Ty {
	switch pos {
	case "where", "join-on":
		return gen.TBool
	case "take":
		return gen.TInt
	}
	return gen.Ty(rng.Intn(3))
}

func generate(w *mon.W) {
	maxOps := w.Pick(2, 3)
	en := gen.NewEnumTyped(false)
	enRich := gen.NewEnumTyped(true)
	for n := 1; n <= maxOps && !w.Stopped(); n++ {
		e := en
		if n <= 2 {
			e = enRich
		}
		for _, t := range []gen.Ty{gen.TBool, gen.TInt, gen.TStr} {
			pos := "extend"
			if t == gen.TBool {
				pos = "where"
			}
			for _, tr := range e.Trees(t, n) {
				c := &Case{X: tr, Pos: pos, Seed: 1}
				w.Do("x|"+pos+"|"+Canon(tr), func(r *mon.R) { Check(c, r) })
				if w.Stopped() {
					return
				}
			}
		}
	}
	rng := gen.RNG(w.Seed, "c01")
	n := w.Pick(6_000, 300_000)
	for i := 0; i < n && !w.Stopped(); i++ {
		pos := positions[i%len(positions)]
		g := &gen.ExprGen{Rng: rng, Cols: gen.DefaultCols(), IllTyped: 10}
		switch pos {
		case "summarize-agg":
			g.Agg = true
		case "let":
			g.NoCols = true
		}
		x := g.Gen(typeFor(pos, rng), 1+rng.Intn(7))
		if pos == "join-on" {
			x = exprpos.Joinify(x, nil, rng)
		}
		c := &Case{X: x, Pos: pos, Seed: rng.Int63()}
		w.Do("r|"+pos+"|"+Canon(x), func(r *mon.R) { Check(c, r) })
	}
}

// Check decides one case.
func Check(c *Case, r *mon.R) {
	r.Case = c
	rng := gen.RNG(c.Seed, "c01case")
	meaning := StripParens(c.X)
	cols := gen.ColsOf(meaning, nil)
	rows := gen.Rows(cols, 600, rng)
	// reference values
	want := make([]val.V, len(rows))
	distinct := map[string]bool{}
	for i, row := range rows {
		want[i] = Eval(meaning, &EvalCtx{Row: row})
		if want[i].K != val.Err {
			distinct[want[i].String()] = true
		}
	}
	variants := []*E{Parenthesize(meaning, nil), Parenthesize(meaning, func() bool { return rng.Intn(4) == 0 })}
	var firstSQL string
	for vi, sx := range variants {
		prog := exprpos.Build(c.Pos, sx)
		src := Print(prog, Layout{Mode: 0}).Src
		sql, err, o := mon.Compile(src, nil)
		if o.Anomalous() {
			if vi == 1 {
				r.Violation("", "adding redundant parentheses makes Compile misbehave: Compile(%q) %s (the minimally parenthesised form compiled)", src, o.String())
			} else {
				r.Inconclusive("foreign_compile_anomaly")
			}
			return
		}
		if err != nil {
			if vi == 1 {
				r.Violation("", "adding redundant parentheses makes compilation fail: Compile(%q): %v (the minimally parenthesised form compiled to %q)", src, err, firstSQL)
			} else {
				r.Inconclusive("foreign_compile_error")
				r.SetAdd("foreign_compile_errors", clip(err.Error()+" <= "+src, 300))
			}
			return
		}
		if vi == 0 {
			firstSQL = sql
		}
		st, perr := sqlmini.Parse(sql)
		if perr != nil {
			r.Violation("", "Compile(%q) = %q is not valid SQL: %v", src, sql, perr)
			return
		}
		sx2, why := exprpos.Locate(c.Pos, st)
		if sx2 == nil {
			r.Inconclusive("foreign_shape_" + c.Pos)
			_ = why
			return
		}
		for i, row := range rows {
			env := exprpos.ToEnv(row)
			got := sqlmini.Eval(sx2, &sqlmini.Ctx{Row: env})
			same := val.Same(got, want[i])
			if c.Pos == "join-on" {
				same = exprpos.IsTrue(got) == exprpos.IsTrue(want[i])
			}
			if !same {
				r.Violation("", "expression at %s position of %q\n  PQL reading  %s = %v\n  SQL emitted  %s\n  SQL reading  %s = %v\n  on row %v", c.Pos, src, Canon(meaning), want[i], sql, sx2.String(), got, exprpos.RowString(row))
				return
			}
		}
		if c.Pos == "summarize-key" {
			// GROUP BY must group by the same expression that is selected
			gx := st.Body.GroupBy[0]
			for i, row := range rows {
				if got := sqlmini.Eval(gx, &sqlmini.Ctx{Row: exprpos.ToEnv(row)}); !val.Same(got, want[i]) {
					r.Violation("", "GROUP BY key of %q reads %s = %v, the PQL key is %v on row %v", src, gx.String(), got, want[i], exprpos.RowString(row))
					return
				}
			}
		}
	}
	r.Count("rows_evaluated", int64(2*len(rows)))
	r.SetAdd("positions", c.Pos)
	ops := CountOps(meaning)
	if ops >= 2 && len(distinct) >= 2 {
		r.Nontrivial()
		// sampled: does the row domain tell this tree from its rotations?
		if rng.Intn(8) == 0 {
			if rot := rotate(meaning); rot != nil {
				r.Count("rotations_checked", 1)
				for i, row := range rows {
					if !val.Same(Eval(rot, &EvalCtx{Row: row}), want[i]) {
						r.Count("rotations_distinguished", 1)
						break
					}
				}
			}
		}
		if ops <= 4 {
			r.Sample(map[string]any{"position": c.Pos, "pql": PrintExpr(Parenthesize(meaning, nil)), "sql": firstSQL, "rows": len(rows), "distinct_values": len(distinct)})
		}
	}
}

// rotate regroups the first binary-under-binary pair it finds:
// (a op1 b) op2 c  ->  a op1 (b op2 c).
func rotate(e *E) *E {
	if e.K == "bin" && e.Kids[0].K == "bin" {
		l := e.Kids[0]
		return Bin(l.Op, l.Kids[0], Bin(e.Op, l.Kids[1], e.Kids[1]))
	}
	if e.K == "bin" && e.Kids[1].K == "bin" {
		rr := e.Kids[1]
		return Bin(rr.Op, Bin(e.Op, e.Kids[0], rr.Kids[0]), rr.Kids[1])
	}
	for i, k := range e.Kids {
		if rk := rotate(k); rk != nil {
			c := *e
			c.Kids = append([]*E{}, e.Kids...)
			c.Kids[i] = rk
			return &c
		}
	}
	return nil
}

func clip(s string, n int) string {
	if len(s) > n {
		return s[:n]
	}
	return s
}
