// Package c01: scalar expressions keep their meaning when translated to SQL.
package c01

import (
	"encoding/json"
	"fmt"

	"verif/harness/exprpos"
	"verif/harness/gen"
	"verif/harness/mon"
	. "verif/harness/pqlref"
	"verif/harness/sqlmini"
	"verif/harness/val"
)

// Case is one expression meaning at one position.
type Case struct {
	X    *E     `json:"x"`
	Pos  string `json:"pos"` // where project extend extend-unnamed summarize-agg summarize-key sort top take let join-on
	Seed int64  `json:"seed"`
	// NoNulls: rows on which an == between $left and $right terms has a NULL
	// operand are not judged (join conditions with such an == below other
	// operators: the documented plain '=' differs from '==' exactly there).
	NoNulls bool `json:"nonulls,omitempty"`
}

func init() {
	mon.Register(&mon.Prop{
		ID:       "C01",
		Generate: generate,
		Replay: func(raw json.RawMessage, r *mon.R) {
			var c Case
			json.Unmarshal(raw, &c)
			Check(&c, r)
		},
		Rule: "exhaustive: every nominally well-typed expression tree with <=2 (quick) / <=3 (thorough) operator nodes over the 15 binary operators, in, signs, indexing, all ten built-ins and pass-through calls, at where/extend positions; " +
			"seeded random trees (depth <= 7, 10% ill-typed sub-expressions) at every expression position (where, project, extend named/unnamed, summarize aggregate/key, sort, top, take, let, join on). " +
			"Each tree is compiled with minimal parentheses and with random redundant ones; the emitted statement is parsed by an independent SQL parser with the target dialect's precedence, the expression at that position is " +
			"evaluated on every row of the product of the referenced columns' domains (NULLs and one off-type value included, <=600 rows) and compared with a reference evaluator reading the PQL tree; type errors are observable outcomes. " +
			"non-trivial = distinct tree with >=2 operator nodes taking at least two different values over the rows",
		FloorQuick: 5_000, FloorThorough: 200_000,
		Assumptions: []string{
			"SQL is read with ClickHouse operator precedence (OR < AND < NOT < IS NULL < comparison/IN < || < + - < * / % < unary minus < [ ]); PostgreSQL agrees on everything the compiler emits",
			"functions the models do not interpret are deterministic injective functions of name and argument values on both sides",
			"join conditions are compared as predicates (TRUE or not), since the documented plain '=' between $left and $right columns differs from '==' only in NULL vs FALSE",
			"value semantics: Appendix B of DESIGN.md (shared primitives; what differs between the sides is which primitive is applied to which operands in which order)",
		},
	})
}

var positions = exprpos.Positions

func typeFor(pos string, rng interface{ Intn(int) int }) gen.Ty {
	switch pos {
	case "where", "where-then-lets", "join-on", "join-on-nested":
		return gen.TBool
	case "take":
		return gen.TInt
	}
	return gen.Ty(rng.Intn(3))
}

func generate(w *mon.W) {
	maxOps := w.Pick(2, 3)
	en := gen.NewEnumTyped(false)
	enRich := gen.NewEnumTyped(true)
	for n := 1; n <= maxOps && !w.Stopped(); n++ {
		e := en
		if n <= 2 {
			e = enRich
		}
		for _, t := range []gen.Ty{gen.TBool, gen.TInt, gen.TStr} {
			pos := "extend"
			if t == gen.TBool {
				pos = "where"
			}
			for _, tr := range e.Trees(t, n) {
				c := &Case{X: tr, Pos: pos, Seed: 1}
				w.Do("x|"+pos+"|"+Canon(tr), func(r *mon.R) { Check(c, r) })
				if w.Stopped() {
					return
				}
			}
		}
	}
	// every operator under every operator in every operand slot, without
	// regard for typing (type errors are observable outcomes): this is where
	// not(a) in (…), (-a)[i], -(-b), isnull(not(a)), -not(a) live
	for _, tr := range untypedPairs() {
		c := &Case{X: tr, Pos: "extend", Seed: 2}
		w.Do("u|"+Canon(tr), func(r *mon.R) { Check(c, r) })
	}
	// flat operator sequences a o1 b o2 c [in (…)] and a in (…) o1 b o2 c over all
	// binary operators, typing disregarded: the grouping the grammar prescribes
	// (computed by the shunting-yard reference) is the meaning
	{
		opnd := func(i int) *E { return []*E{Name("ia"), Name("ib"), Num("2"), Name("ba")}[i%4] }
		for _, o1 := range BinOps {
			for _, o2 := range BinOps {
				for form := 0; form < 3; form++ {
					f := FlatExpr{InList: []*E{Num("1"), Name("ib")}}
					switch form {
					case 0:
						f.Operands, f.Ops = []*E{opnd(0), opnd(1), opnd(2)}, []string{o1, o2, "in"}
					case 1:
						f.Operands, f.Ops = []*E{opnd(0), opnd(1), opnd(2)}, []string{"in", o1, o2}
					default:
						f.Operands, f.Ops = []*E{opnd(0), opnd(1), opnd(2), opnd(3)}, []string{o1, "in", o2, o1}
					}
					if o1 == "in" || o2 == "in" {
						continue
					}
					x := ShuntingYard(f)
					c := &Case{X: x, Pos: "extend", Seed: 7}
					w.Do(fmt.Sprint("flat|", form, "|", o1, "|", o2), func(r *mon.R) { Check(c, r) })
				}
			}
		}
	}
	// comparisons of comparisons in join conditions, every placement of the
	// two sides (the compiler special-cases == between $left and $right terms)
	{
		cmpOps := []string{"==", "!=", "<", ">="}
		sides := []string{"$left", "$right"}
		col := func(side, name string) *E { return Name(side, name) }
		for _, o1 := range cmpOps {
			for _, o2 := range []string{"==", "!="} {
				for mask := 0; mask < 8; mask++ {
					a, b, cc := sides[mask&1], sides[(mask>>1)&1], sides[(mask>>2)&1]
					for _, shape := range []int{0, 1, 2, 3} {
						var x *E
						switch shape {
						case 0: // A o2 (B o1 C), boolean A
							x = Bin(o2, col(a, "ba"), Bin(o1, col(b, "ia"), col(cc, "ib")))
						case 1: // (A o1 B) o2 C
							x = Bin(o2, Bin(o1, col(a, "ia"), col(b, "ib")), col(cc, "ba"))
						case 2: // (A o1 B) o2 (C o1 D)
							x = Bin(o2, Bin(o1, col(a, "ia"), col(b, "ib")), Bin(o1, col(cc, "ia"), col(a, "ib")))
						default: // not(A o2 (B o1 C)) and D
							x = Bin("and", Call("not", Bin(o2, col(a, "ba"), Bin(o1, col(b, "ia"), col(cc, "ib")))), col(b, "bb"))
						}
						c := &Case{X: x, Pos: "join-on", Seed: 3, NoNulls: true}
						w.Do("j|"+Canon(x), func(r *mon.R) { Check(c, r) })
					}
				}
			}
		}
	}
	// wide and deep typed expressions: N operands / nesting depth N
	for _, tr := range wideTyped() {
		c := &Case{X: tr.x, Pos: tr.pos, Seed: 4}
		w.Do("w|"+tr.pos+"|"+Canon(tr.x), func(r *mon.R) { Check(c, r) })
	}
	// every integer spelling (leading zeros, hexadecimal, around 2^31, 2^32,
	// 2^53, 2^63, 2^64 and beyond) alone and as an operand at every position
	for _, lit := range gen.IntSpellings {
		for _, pos := range positions {
			var xs []*E
			switch pos {
			case "take":
				xs = []*E{Num(lit)}
			case "where", "where-then-lets", "join-on", "join-on-nested":
				xs = []*E{Bin("==", Name("ia"), Num(lit)), Bin("<", Un("-", Num(lit)), Name("ib"))}
			default:
				xs = []*E{Bin("+", Name("ia"), Num(lit)), Un("-", Num(lit)), Idx(Name("ma"), Num(lit))}
			}
			for _, x := range xs {
				if pos == "join-on" || pos == "join-on-nested" {
					x = exprpos.Joinify(x, nil, gen.RNG(1, lit))
				}
				if pos == "let" || pos == "let-chain" {
					x = Bin("+", Num("1"), Num(lit))
				}
				c := &Case{X: x, Pos: pos, Seed: 5}
				w.Do("n|"+pos+"|"+Canon(x), func(r *mon.R) { Check(c, r) })
			}
		}
	}
	// functions this language does not define (names of the dialect family it
	// follows, look-alikes of its own built-ins) are passed through by name:
	// every such name with every shape of argument, alone and as an operand
	{
		args := []func() []*E{
			func() []*E { return []*E{Num("42")} }, func() []*E { return []*E{Un("-", Num("5"))} }, func() []*E { return []*E{Paren(Un("-", Num("1")))} },
			func() []*E { return []*E{Name("null")} }, func() []*E { return []*E{Name("true")} }, func() []*E { return []*E{Name("ia")} }, func() []*E { return []*E{Un("-", Name("ia"))} },
			func() []*E { return []*E{StrLit("a", false)} }, func() []*E { return nil }, func() []*E { return []*E{Name("ia"), Num("2")} }, func() []*E { return []*E{Bin(">", Name("ia"), Num("1")), Num("1"), Num("0")} },
		}
		ctxs := []func(c *E) *E{
			func(c *E) *E { return c }, func(c *E) *E { return Un("-", c) }, func(c *E) *E { return Bin("-", Name("ib"), c) }, func(c *E) *E { return Idx(Name("ma"), c) }, func(c *E) *E { return Bin("*", c, c) },
		}
		for _, name := range append(append([]string{}, gen.DialectFuncs...), "ISNULL", "IFF", "StrCat", "Now", "COUNT2", "tolower2", "is_null") {
			for ai, a := range args {
				for ci, cx := range ctxs {
					x := cx(Call(name, a()...))
					c := &Case{X: x, Pos: "extend", Seed: 6}
					w.Do(fmt.Sprint("d|", name, "|", ai, "|", ci), func(r *mon.R) { Check(c, r) })
				}
			}
		}
	}
	// the `project name` shorthand: the name is an expression like any other
	// (a built-in constant, a column, a quoted column)
	for _, x := range []*E{Name("null"), Name("true"), Name("false"), Name("ia"), Name("sa"), Name("Null"), Name("True"), QName("i c"), QName("null"), QName("true")} {
		c := &Case{X: x, Pos: "project-name", Seed: 8}
		w.Do("pn|"+Canon(x), func(r *mon.R) { Check(c, r) })
	}
	rng := gen.RNG(w.Seed, "c01")
	n := w.Pick(6_000, 300_000)
	for i := 0; i < n && !w.Stopped(); i++ {
		pos := positions[i%len(positions)]
		g := &gen.ExprGen{Rng: rng, Cols: gen.DefaultCols(), IllTyped: 10}
		switch pos {
		case "summarize-agg":
			g.Agg = true
		case "let", "let-chain":
			g.NoCols = true
		}
		x := g.Gen(typeFor(pos, rng), 1+rng.Intn(7))
		noNulls := false
		if pos == "join-on" || pos == "join-on-nested" {
			if i%3 == 0 {
				// every column on a random side: == between the sides may end up anywhere
				x = freeJoinify(x, rng)
				noNulls = true
			} else {
				x = exprpos.Joinify(x, nil, rng)
			}
		} else if i%4 == 1 {
			// outside a join, `$left`.x is an ordinary qualified name when the qualifier is quoted
			x = quoteQualify(x, rng)
		}
		c := &Case{X: x, Pos: pos, Seed: rng.Int63(), NoNulls: noNulls}
		w.Do("r|"+pos+"|"+Canon(x), func(r *mon.R) { Check(c, r) })
	}
}

// Check decides one case.
func Check(c *Case, r *mon.R) {
	r.Case = c
	rng := gen.RNG(c.Seed, "c01case")
	meaning := StripParens(c.X)
	cols := gen.ColsOf(meaning, nil)
	rows := gen.Rows(cols, 600, rng)
	if c.NoNulls {
		// the documented plain '=' differs from '==' exactly when an operand is
		// NULL (a NULL column, or a computed one: 1/0, an index out of range):
		// rows on which an == between the two sides has such an operand are not judged
		var nn []Row
		for _, row := range rows {
			if !crossEqNull(meaning, row) {
				nn = append(nn, row)
			}
		}
		rows = nn
		if len(rows) == 0 {
			r.Inconclusive("join_equality_null_on_every_row")
			return
		}
	}
	// reference values
	want := make([]val.V, len(rows))
	distinct := map[string]bool{}
	for i, row := range rows {
		want[i] = Eval(meaning, &EvalCtx{Row: row})
		if want[i].K != val.Err {
			distinct[want[i].String()] = true
		}
	}
	variants := []*E{Parenthesize(meaning, nil), Parenthesize(meaning, func() bool { return rng.Intn(4) == 0 })}
	var firstSQL string
	for vi, sx := range variants {
		prog := exprpos.Build(c.Pos, sx)
		src := Print(prog, Layout{Mode: 0}).Src
		sql, err, o := mon.Compile(src, nil)
		if o.Anomalous() {
			if vi == 1 {
				r.Violation("", "adding redundant parentheses makes Compile misbehave: Compile(%q) %s (the minimally parenthesised form compiled)", src, o.String())
			} else {
				r.Inconclusive("foreign_compile_anomaly")
			}
			return
		}
		if err != nil {
			if vi == 1 {
				r.Violation("", "adding redundant parentheses makes compilation fail: Compile(%q): %v (the minimally parenthesised form compiled to %q)", src, err, firstSQL)
			} else {
				r.Inconclusive("foreign_compile_error")
				r.SetAdd("foreign_compile_errors", clip(err.Error()+" <= "+src, 300))
			}
			return
		}
		if vi == 0 {
			firstSQL = sql
		}
		st, perr := sqlmini.Parse(sql)
		if perr != nil {
			r.Violation("", "Compile(%q) = %q is not valid SQL: %v", src, sql, perr)
			return
		}
		sx2, why := exprpos.Locate(c.Pos, st)
		if sx2 == nil {
			r.Inconclusive("foreign_shape_" + c.Pos)
			_ = why
			return
		}
		// structure of in-lists: as many elements as were written, list by list
		// (a list with ill-typed elements evaluates to an error whatever is
		// dropped from it, so its length is compared directly)
		{
			var want, got []int
			var walkE func(e *E)
			walkE = func(e *E) {
				if e.K == "in" {
					want = append(want, len(e.Kids)-1)
				}
				for _, k := range e.Kids {
					walkE(k)
				}
			}
			walkE(meaning)
			var walkX func(x *sqlmini.X)
			walkX = func(x *sqlmini.X) {
				if x == nil {
					return
				}
				if x.K == "in" {
					got = append(got, len(x.Kids)-1)
				}
				for _, k := range x.Kids {
					walkX(k)
				}
				walkX(x.Filter)
			}
			walkX(sx2)
			if len(want) > 0 && fmt.Sprint(want) != fmt.Sprint(got) {
				r.Violation("", "expression at %s position of %q: the in-lists of the program have %v elements, those of the emitted SQL %v\n  SQL emitted  %s", c.Pos, src, want, got, sql)
				return
			}
		}
		for i, row := range rows {
			env := exprpos.ToEnv(row)
			got := sqlmini.Eval(sx2, &sqlmini.Ctx{Row: env})
			same := val.Same(got, want[i])
			if c.Pos == "join-on" || c.Pos == "join-on-nested" {
				same = exprpos.IsTrue(got) == exprpos.IsTrue(want[i])
			}
			if !same {
				r.Violation("", "expression at %s position of %q\n  PQL reading  %s = %v\n  SQL emitted  %s\n  SQL reading  %s = %v\n  on row %v", c.Pos, src, Canon(meaning), want[i], sql, sx2.String(), got, exprpos.RowString(row))
				return
			}
		}
		if c.Pos == "summarize-key" {
			// GROUP BY must group by the same expression that is selected
			gx := st.Body.GroupBy[0]
			for i, row := range rows {
				if got := sqlmini.Eval(gx, &sqlmini.Ctx{Row: exprpos.ToEnv(row)}); !val.Same(got, want[i]) {
					r.Violation("", "GROUP BY key of %q reads %s = %v, the PQL key is %v on row %v", src, gx.String(), got, want[i], exprpos.RowString(row))
					return
				}
			}
		}
	}
	r.Count("rows_evaluated", int64(2*len(rows)))
	r.SetAdd("positions", c.Pos)
	ops := CountOps(meaning)
	if ops >= 2 && len(distinct) >= 2 {
		r.Nontrivial()
		// sampled: does the row domain tell this tree from its rotations?
		if rng.Intn(8) == 0 {
			if rot := rotate(meaning); rot != nil {
				r.Count("rotations_checked", 1)
				for i, row := range rows {
					if !val.Same(Eval(rot, &EvalCtx{Row: row}), want[i]) {
						r.Count("rotations_distinguished", 1)
						break
					}
				}
			}
		}
		if ops <= 4 {
			r.Sample(map[string]any{"position": c.Pos, "pql": PrintExpr(Parenthesize(meaning, nil)), "sql": firstSQL, "rows": len(rows), "distinct_values": len(distinct)})
		}
	}
}

// sides reports which of $left / $right a tree mentions as a qualifier.
func sides(e *E) (l, rt bool) {
	if e.K == "name" && len(e.Parts) > 1 {
		switch e.Parts[0].Name {
		case "$left":
			l = true
		case "$right":
			rt = true
		}
	}
	for _, k := range e.Kids {
		a, b := sides(k)
		l, rt = l || a, rt || b
	}
	return
}

// crossEqNull: some == whose operands together mention both sides has a NULL
// (or failing) operand on this row; the compiler documents a plain = there.
func crossEqNull(e *E, row Row) bool {
	if e.K == "bin" && e.Op == "==" {
		if l, rt := sides(e); l && rt {
			for _, k := range e.Kids {
				if v := Eval(k, &EvalCtx{Row: row}); v.K == val.Null || v.K == val.Err {
					return true
				}
			}
		}
	}
	for _, k := range e.Kids {
		if crossEqNull(k, row) {
			return true
		}
	}
	return false
}

// rotate regroups the first binary-under-binary pair it finds:
// (a op1 b) op2 c  ->  a op1 (b op2 c).
func rotate(e *E) *E {
	if e.K == "bin" && e.Kids[0].K == "bin" {
		l := e.Kids[0]
		return Bin(l.Op, l.Kids[0], Bin(e.Op, l.Kids[1], e.Kids[1]))
	}
	if e.K == "bin" && e.Kids[1].K == "bin" {
		rr := e.Kids[1]
		return Bin(rr.Op, Bin(e.Op, e.Kids[0], rr.Kids[0]), rr.Kids[1])
	}
	for i, k := range e.Kids {
		if rk := rotate(k); rk != nil {
			c := *e
			c.Kids = append([]*E{}, e.Kids...)
			c.Kids[i] = rk
			return &c
		}
	}
	return nil
}

func clip(s string, n int) string {
	if len(s) > n {
		return s[:n]
	}
	return s
}

// shape is an operator with its operand slots; leaf(i) gives a default leaf
// of the nominal type of slot i.
type shape struct {
	name  string
	slots int
	mk    func(k []*E) *E
	leaf  []func() *E
}

func untypedPairs() []*E {
	i := func() *E { return Name("ia") }
	i2 := func() *E { return Name("ib") }
	st := func() *E { return Name("sa") }
	b := func() *E { return Name("ba") }
	m := func() *E { return Name("ma") }
	one := func() *E { return Num("1") }
	var shapes []shape
	for _, op := range []string{"or", "and"} {
		op := op
		shapes = append(shapes, shape{op, 2, func(k []*E) *E { return Bin(op, k[0], k[1]) }, []func() *E{b, func() *E { return Name("bb") }}})
	}
	for _, op := range []string{"==", "!=", "<", "<=", ">", ">=", "+", "-", "*", "/", "%"} {
		op := op
		shapes = append(shapes, shape{op, 2, func(k []*E) *E { return Bin(op, k[0], k[1]) }, []func() *E{i, i2}})
	}
	for _, op := range []string{"=~", "!~"} {
		op := op
		shapes = append(shapes, shape{op, 2, func(k []*E) *E { return Bin(op, k[0], k[1]) }, []func() *E{st, func() *E { return Name("sb") }}})
	}
	shapes = append(shapes,
		shape{"in", 3, func(k []*E) *E { return In(k[0], k[1], k[2]) }, []func() *E{i, one, i2}},
		shape{"neg", 1, func(k []*E) *E { return Un("-", k[0]) }, []func() *E{i}},
		shape{"pos", 1, func(k []*E) *E { return Un("+", k[0]) }, []func() *E{i}},
		shape{"idx", 2, func(k []*E) *E { return Idx(k[0], k[1]) }, []func() *E{m, one}},
		shape{"not", 1, func(k []*E) *E { return Call("not", k[0]) }, []func() *E{b}},
		shape{"isnull", 1, func(k []*E) *E { return Call("isnull", k[0]) }, []func() *E{i}},
		shape{"isnotnull", 1, func(k []*E) *E { return Call("isnotnull", k[0]) }, []func() *E{i}},
		shape{"iff", 3, func(k []*E) *E { return Call("iff", k[0], k[1], k[2]) }, []func() *E{b, i, i2}},
		shape{"strcat", 2, func(k []*E) *E { return Call("strcat", k[0], k[1]) }, []func() *E{st, func() *E { return Name("sb") }}},
		shape{"strcat1", 1, func(k []*E) *E { return Call("strcat", k[0]) }, []func() *E{st}},
		shape{"tolower", 1, func(k []*E) *E { return Call("tolower", k[0]) }, []func() *E{st}},
		shape{"toupper", 1, func(k []*E) *E { return Call("toupper", k[0]) }, []func() *E{st}},
		shape{"countif", 1, func(k []*E) *E { return Call("countif", k[0]) }, []func() *E{b}},
		shape{"call", 2, func(k []*E) *E { return Call("fi", k[0], k[1]) }, []func() *E{i, st}},
		shape{"now", 0, func(k []*E) *E { return Call("now") }, nil},
		shape{"count", 0, func(k []*E) *E { return Call("count") }, nil},
	)
	build := func(sh shape, slot int, child *E) *E {
		k := make([]*E, sh.slots)
		for j := range k {
			if j == slot {
				k[j] = child
			} else {
				k[j] = sh.leaf[j]()
			}
		}
		return sh.mk(k)
	}
	var out []*E
	for _, outer := range shapes {
		for slot := 0; slot < outer.slots; slot++ {
			for _, inner := range shapes {
				child := build(inner, -1, nil)
				out = append(out, build(outer, slot, child))
				// and one more level for the unary-ish outers
				if outer.slots == 1 {
					for _, in2 := range shapes {
						if in2.slots >= 1 {
							out = append(out, build(outer, 0, build(inner, 0, build(in2, -1, nil))))
						}
					}
				}
			}
		}
	}
	return out
}

// quoteQualify gives some columns a quoted qualifier `$left` or `$right`.
func quoteQualify(x *E, rng interface{ Intn(int) int }) *E {
	c := *x
	if x.K == "name" {
		if len(x.Parts) == 1 && !x.Parts[0].Quoted {
			n := x.Parts[0].Name
			if n == "true" || n == "false" || n == "null" {
				return &c
			}
		}
		if rng.Intn(2) == 0 {
			c.Parts = append([]Ident{{Name: []string{"$left", "$right"}[rng.Intn(2)], Quoted: true}}, x.Parts...)
		}
		return &c
	}
	c.Kids = nil
	for _, k := range x.Kids {
		c.Kids = append(c.Kids, quoteQualify(k, rng))
	}
	return &c
}

// freeJoinify qualifies every column with a random side.
func freeJoinify(x *E, rng interface{ Intn(int) int }) *E {
	c := *x
	if x.K == "name" {
		if len(x.Parts) == 1 && !x.Parts[0].Quoted {
			n := x.Parts[0].Name
			if n == "true" || n == "false" || n == "null" {
				return &c
			}
		}
		c.Parts = append([]Ident{{Name: []string{"$left", "$right"}[rng.Intn(2)]}}, x.Parts...)
		return &c
	}
	c.Kids = nil
	for _, k := range x.Kids {
		c.Kids = append(c.Kids, freeJoinify(k, rng))
	}
	return &c
}

type posExpr struct {
	x   *E
	pos string
}

func wideTyped() []posExpr {
	ints := []*E{Name("ia"), Name("ib"), Num("2"), &E{K: "name", Parts: []Ident{{Name: "i c", Quoted: true}}}, Num("7")}
	strs := []*E{Name("sa"), Name("sb"), StrLit("A", false), StrLit("it's", true)}
	bools := []*E{Name("ba"), Name("bb"), Bin(">", Name("ia"), Num("0")), Call("isnull", Name("sa"))}
	var out []posExpr
	for _, n := range gen.WideSizes {
		if n > 129 {
			continue
		}
		cat := Call("strcat")
		in := In(Name("ia"))
		for i := 0; i < n; i++ {
			cat.Kids = append(cat.Kids, strs[i%len(strs)])
			in.Kids = append(in.Kids, ints[(i+1)%len(ints)])
		}
		out = append(out, posExpr{cat, "extend"}, posExpr{in, "where"})
		// few distinct values repeated, as numbers and as strings of the same text
		rep, reps := In(Name("ia")), In(Name("sa"))
		for i := 0; i < n; i++ {
			v := Num(fmt.Sprint(i % 4))
			if i%3 == 2 {
				v = StrLit(fmt.Sprint(i%4), i%2 == 0)
			}
			rep.Kids = append(rep.Kids, v)
			reps.Kids = append(reps.Kids, v)
		}
		out = append(out, posExpr{rep, "where"}, posExpr{reps, "where"})
		for _, op := range []string{"and", "or"} {
			other := map[string]string{"and": "or", "or": "and"}[op]
			e := bools[0]
			for i := 1; i <= n; i++ {
				if i%5 == 2 || i == n {
					// an operand that is a group of the other logical operator
					e = Bin(op, e, Bin(other, bools[i%len(bools)], bools[(i+1)%len(bools)]))
					continue
				}
				if i%3 == 0 {
					e = Bin(op, bools[i%len(bools)], e) // right-nested now and then
				} else {
					e = Bin(op, e, bools[i%len(bools)])
				}
			}
			out = append(out, posExpr{e, "where"})
		}
		for _, op := range []string{"+", "-", "*"} {
			e := ints[0]
			for i := 1; i <= n; i++ {
				if i%4 == 0 {
					e = Bin(op, ints[i%len(ints)], e)
				} else {
					e = Bin(op, e, ints[i%len(ints)])
				}
			}
			out = append(out, posExpr{e, "extend"})
		}
		if n <= 65 {
			e := Name("ia")
			nn := Name("ba")
			f := Name("ia")
			for i := 0; i < n; i++ {
				e = Un("-", e)
				nn = Call("not", nn)
				f = Call("iff", bools[i%len(bools)], f, ints[i%len(ints)])
			}
			out = append(out, posExpr{e, "extend"}, posExpr{nn, "where"}, posExpr{f, "extend"})
		}
	}
	return out
}
