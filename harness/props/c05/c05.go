// Package c05: successful output is exactly one well-formed SQL statement.
package c05

import (
	"encoding/json"
	"fmt"
	"regexp"
	"strings"
	"verif/harness/exprpos"
	"verif/harness/props/c03"
	"verif/harness/props/c04"

	"github.com/runreveal/pql/parser"

	"verif/harness/gen"
	"verif/harness/mon"
	. "verif/harness/pqlref"
	"verif/harness/sqlmini"
)

type Case struct {
	Src    mon.Str           `json:"src"`
	Params map[string]string `json:"params,omitempty"`
}

func init() {
	mon.Register(&mon.Prop{
		ID:       "C05",
		Generate: generate,
		Replay: func(raw json.RawMessage, r *mon.R) {
			var c Case
			json.Unmarshal(raw, &c)
			Check(&c, r, map[string]bool{})
		},
		Rule: "every successful Compile over: typed expression programs at all positions, random syntactic programs (all operators, joins, lets, odd names), the hand corpus, and a site-guided mutation corpus grown per worker (accepted mutants: negative limits, literals as predicates, keywords as names), with and without parameter maps. " +
			"invariant: in both SQL lexer modes no error/comment token and exactly one ';' which is last; brackets balance; the independent parser accepts it as [WITH name AS (select),…] select; CTE names are pairwise distinct; every FROM/JOIN reads an earlier CTE or a table named in the PQL source; " +
			"every CTE is read later; no 'unhandled'/'unsupported' placeholder. non-trivial = distinct compiled source whose SQL has a WITH clause or at least two of WHERE/GROUP BY/ORDER BY/LIMIT/JOIN",
		FloorQuick: 10_000, FloorThorough: 300_000,
		Assumptions: []string{
			"programs calling a pass-through function whose name is a reserved word of the SQL mini-grammar or not a plain identifier are skipped and counted (whether the engine knows a function is outside every property)",
			"programs whose `as` names collide with each other, with a table name or with the __subquery prefix are judged on the lexical and syntactic rules only; the wiring rules (which definition a read means, unused definitions, unique names) are skipped for them and counted (DESIGN.md section 7)",
		},
	})
}

var builtins = map[string]bool{"not": true, "isnull": true, "isnotnull": true, "iff": true, "iif": true, "strcat": true, "tolower": true, "toupper": true, "now": true, "count": true, "countif": true}
var plainIdent = regexp.MustCompile(`^[A-Za-z_][A-Za-z0-9_]*$`)

var paramSets = []map[string]string{nil, nil, {"ia": "$1", "sa": "{s:String}", "k": "?"}, {"T": "$9", "x": "(1 + 2)", "true": "0"}}

func generate(w *mon.W) {
	shapes := map[string]bool{}
	do := func(src string, pm map[string]string) {
		c := &Case{Src: mon.Str(src), Params: pm}
		w.Do(fmt.Sprint(len(pm), "|", src), func(r *mon.R) { Check(c, r, shapes) })
	}
	for _, s := range gen.Seeds() {
		do(s, nil)
	}
	for _, kind := range gen.WideKinds {
		for _, n := range gen.WideSizes {
			do(Print(gen.Wide(kind, n), Layout{Mode: 0}).Src, nil)
		}
	}
	// results named by `as` and read back by joins: every placement of the
	// `as` (directly before the join, one operator earlier, inside the right
	// side), bare and continued right-hand sides, once and twice
	for _, pre := range []string{"", "| where a > 1 ", "| project k, a ", "| summarize n = count() by k "} {
		for _, mid := range []string{"", "| where k > 0 ", "| take 5 "} {
			for _, kind := range []string{"", "kind=inner ", "kind=leftouter ", "kind=innerunique "} {
				for _, right := range []string{"B", "B | where k < 9", "B | as C", "U | as C | join (B) on k", "U | join " + kind + "(B) on k"} {
					for _, post := range []string{"", " | count", " | join " + kind + "(B) on k", " | as D | join (D) on k"} {
						do("T "+pre+"| as B "+mid+"| join "+kind+"("+right+") on k"+post, nil)
					}
				}
			}
		}
	}
	// results named alike, like a table or like a generated name, with every
	// operator between and after them (only the shape of the statement is judged)
	for _, src := range gen.NameCollisionSources() {
		do(src, nil)
	}
	// every spelling of a signed let value under every signed / indexed use
	{
		vals := []string{"5", "-5", "+5", "(-5)", "((-5))", "(+5)", "-(5)", "(-(5))", "- -5", "-(-5)", "1-5", "(1-5)", "-5+1", "-0x10", "(-0x8000000000000000)", "-.5", "(-1e3)", "-n0", "(-n0)", "- - -5"}
		uses := []string{"n", "-n", "+n", "- -n", "-(n)", "(-n)", "-(-n)", "n[1]", "-n[1]", "(n)[1]", "1 - -n", "1--n", "n-n", "-n-n", "- n * - n", "x[-n]", "f(-n)", "-n in (-n, n)", "not(-n == n)", "iff(-n > 0, -n, n)"}
		for _, v := range vals {
			for _, u := range uses {
				do("let n0 = -1; let n = "+v+"; T | where x > "+u+" | take 3", nil)
				do("let n0 = 2; let n = "+v+"; let m = "+u+"; T | extend y = -m | sort by -m", nil)
			}
		}
	}
	// hostile contents in quoted names and strings placed at every token position
	// of the skeleton programs (most do not compile; what does must be well formed)
	for _, src := range c04.PlacementSources() {
		do(src, nil)
	}
	for _, src := range c04.SkeletonSources() {
		do(src, nil)
	}
	// every function name of the dialect (passed through by name) with the
	// argument lists such functions are called with
	for _, fn := range append(append([]string{}, gen.DialectFuncs...), "f", "date", "timespan", "coalesce", "indexof", "strcat_delim", "iff", "strcat", "not") {
		for _, args := range []string{"", "x", "x, 0", "x, 1", "x, 0, 1", "0", "'s', 0", "x, -1", "x, 0.0", "2024", "x, y, z, w", "x, 'a', 'b'", "(x), (0)", "x,\n 0"} {
			do("T | extend r = "+fn+"("+args+") | project r", nil)
			do("T | where "+fn+"("+args+") == 1 | summarize n = count() by k = "+fn+"("+args+")", nil)
		}
	}
	// the directed join families of C03, and typed expressions at every
	// expression position (join conditions included)
	for _, p := range c03.DirectedPipelines(w.Seed, w.Pick(1_500, 40_000)) {
		do(Print(&Program{Stmts: []*Stmt{{Pipe: p}}}, Layout{Mode: 0}).Src, nil)
	}
	{
		prng := gen.RNG(w.Seed, "c05pos")
		for i := 0; i < w.Pick(3_000, 100_000); i++ {
			g := &gen.ExprGen{Rng: prng, Cols: gen.DefaultCols(), IllTyped: 8}
			pos := exprpos.Positions[i%len(exprpos.Positions)]
			if pos == "let" || pos == "let-chain" {
				g.NoCols = true
			}
			x := g.Gen(gen.Ty(prng.Intn(3)), 1+prng.Intn(5))
			if pos == "join-on" || pos == "join-on-nested" {
				// every column on a random side: comparisons and in-tests across the sides
				x = freeSides(x, prng)
			}
			do(Print(exprpos.Build(pos, Parenthesize(x, nil)), Layout{Mode: 0}).Src, nil)
		}
	}
	rng := gen.RNG(w.Seed, "c05")
	// typed expression programs
	n := w.Pick(6_000, 200_000)
	for i := 0; i < n && !w.Stopped(); i++ {
		g := &gen.ExprGen{Rng: rng, Cols: gen.DefaultCols(), IllTyped: 8, Agg: i%5 == 0}
		x := Parenthesize(g.Gen(gen.Ty(rng.Intn(3)), 1+rng.Intn(6)), func() bool { return rng.Intn(6) == 0 })
		var prog *Program
		switch i % 5 {
		case 0:
			prog = Query("T", &Op{K: "summarize", Cols: []Col{{X: x}}, HasBy: true, By: []Col{{X: Name("ia")}}})
		case 1:
			prog = Query("T", &Op{K: "where", X: x}, &Op{K: "take", X: Num("5")})
		case 2:
			prog = Query("T", &Op{K: "extend", Cols: []Col{{X: x}}}, &Op{K: "sort", Terms: []SortTerm{{X: Name("ia")}}})
		case 3:
			prog = Query("T", &Op{K: "project", Cols: []Col{{Name: &Ident{Name: "p"}, X: x}}}, &Op{K: "count"})
		default:
			prog = Query("T", &Op{K: "top", X: Num("2"), Terms: []SortTerm{{X: x, Dir: "desc", Nulls: "first"}}})
		}
		do(Print(prog, Layout{Mode: 0}).Src, paramSets[i%len(paramSets)])
	}
	// random syntactic programs
	sg := &gen.Syn{Rng: rng}
	n = w.Pick(25_000, 600_000)
	for i := 0; i < n && !w.Stopped(); i++ {
		prog := gen.SynProgram(sg, i)
		do(Print(prog, gen.LayoutFor(int64(i), i%3)).Src, paramSets[i%len(paramSets)])
	}
	// schema-tracked pipelines with joins (they all compile: more SQL shapes)
	n = w.Pick(6_000, 200_000)
	kinds := append(append([]string{}, gen.Kinds...), "join", "join")
	for i := 0; i < n && !w.Stopped(); i++ {
		var seq []string
		for k := 1 + rng.Intn(7); k > 0; k-- {
			seq = append(seq, kinds[rng.Intn(len(kinds))])
		}
		pg := &gen.PipeGen{Rng: rng, DetSort: 50}
		p, _ := pg.Pipe("T", seq, 2)
		do(Print(&Program{Stmts: []*Stmt{{Pipe: p}}}, gen.LayoutFor(int64(i), i%3)).Src, nil)
	}
	// site-guided mutation corpus (per worker)
	mrng := gen.RNG(w.Seed, fmt.Sprintf("c05/%d", w.Shard))
	corpus := gen.NewCorpus(gen.Seeds(), 3000)
	n = w.Pick(60_000, 3_000_000) / w.NShards
	for i := 0; i < n && !w.Stopped(); i++ {
		s := corpus.Mutant(mrng)
		c := &Case{Src: mon.Str(s)}
		w.DoOwned("0|"+s, func(r *mon.R) {
			mon.ResetSig()
			ok := Check(c, r, shapes)
			if ok && corpus.Offer(s, mon.Sig()) {
				r.Count("accepted_mutants_kept", 1)
			}
		})
	}
	w.Count("sql_shapes_per_worker_sum", int64(len(shapes)))
}

// inventory lists table names, `as` names and pass-through function names of
// a parsed program; selfNamed reports an `as` whose name is that of a table
// read at or before it (a result named like its own input is not judged).
func inventory(stmts []parser.Statement) (tables, asNames, calls []string, selfNamed bool) {
	type at struct {
		name string
		pos  int
	}
	var tabs, ases []at
	for _, st := range stmts {
		for _, n := range Reach(st) {
			switch x := n.Node.(type) {
			case *parser.TableRef:
				if x.Table != nil {
					tables = append(tables, x.Table.Name)
					tabs = append(tabs, at{x.Table.Name, x.Table.NameSpan.Start})
				}
			case *parser.AsOperator:
				if x.Name != nil {
					asNames = append(asNames, x.Name.Name)
					ases = append(ases, at{x.Name.Name, x.Name.NameSpan.Start})
				}
			case *parser.CallExpr:
				if x.Func != nil && !builtins[x.Func.Name] {
					calls = append(calls, x.Func.Name)
				}
			}
		}
	}
	for _, a := range ases {
		for _, t := range tabs {
			if t.name == a.name && t.pos < a.pos {
				selfNamed = true
			}
		}
	}
	return
}

// Check decides one source; it reports whether the source compiled and held.
func Check(c *Case, r *mon.R, shapes map[string]bool) bool {
	r.Case = c
	sql, err, o := mon.Compile(string(c.Src), c.Params)
	if o.Anomalous() {
		r.Inconclusive("foreign_compile_anomaly")
		return false
	}
	if err != nil {
		r.Count("did_not_compile", 1)
		r.Inconclusive("did_not_compile")
		return false
	}
	stmts, perr, o := mon.Parse(string(c.Src))
	if o.Anomalous() || perr != nil {
		r.Inconclusive("foreign_parse")
		return false
	}
	tables, asNames, calls, selfNamed := inventory(stmts)
	for _, f := range calls {
		// names the language can spell bare but SQL reads differently ($x, reserved words);
		// any other shape of name is judged like the rest of the output
		if sqlmini.IsReserved(f) || (strings.HasPrefix(f, "$") && plainIdent.MatchString("x"+f[1:])) {
			r.Inconclusive("skipped_function_name_is_sql_syntax")
			return false
		}
	}
	// results named alike, like their own input or like a generated name: which
	// definition a later read means is not judged (the wiring rules below); that the
	// output is one well-formed statement is
	collision := false
	seen := map[string]bool{}
	for _, a := range asNames {
		if selfNamed || seen[a] || strings.HasPrefix(a, "__subquery") {
			collision = true
		}
		seen[a] = true
	}
	bad := func(format string, args ...any) bool {
		r.Violation("", "Compile(%q) succeeds with output\n  %s\n  %s", string(c.Src), sql, fmt.Sprintf(format, args...))
		return false
	}
	if strings.Contains(sql, "unhandled") && strings.Contains(sql, "/*") || strings.Contains(sql, "unsupported operator") {
		return bad("which contains an internal placeholder")
	}
	for _, mode := range []sqlmini.Mode{sqlmini.ClickHouse, sqlmini.Standard} {
		toks := sqlmini.Lex(sql, mode)
		depth := 0
		var stack []string
		for i, t := range toks {
			switch t.Kind {
			case sqlmini.TErr:
				return bad("which does not lex: %s at byte %d (mode %d)", t.Val, t.Start, mode)
			case sqlmini.TComment:
				return bad("which contains a comment at byte %d (mode %d)", t.Start, mode)
			case sqlmini.TOp:
				switch t.Text {
				case ";":
					if i != len(toks)-1 {
						return bad("which has a statement separator before the end (byte %d)", t.Start)
					}
				case "(", "[":
					stack = append(stack, t.Text)
					depth++
				case ")", "]":
					open := map[string]string{")": "(", "]": "["}[t.Text]
					if len(stack) == 0 || stack[len(stack)-1] != open {
						return bad("which has unbalanced brackets at byte %d", t.Start)
					}
					stack = stack[:len(stack)-1]
				}
			}
		}
		if len(stack) != 0 {
			return bad("which has %d unclosed brackets", len(stack))
		}
		if len(toks) == 0 || toks[len(toks)-1].Kind != sqlmini.TOp || toks[len(toks)-1].Text != ";" {
			return bad("which does not end in a semicolon")
		}
	}
	st, serr := sqlmini.Parse(sql)
	if serr != nil {
		return bad("which does not parse as [WITH …] SELECT …: %v", serr)
	}
	if collision {
		r.Count("well_formed_with_name_collision", 1)
		r.Inconclusive("skipped_as_name_collision")
		return false
	}
	// wiring
	defined := map[string]int{}
	used := map[string]bool{}
	srcTables := map[string]bool{}
	for _, t := range tables {
		srcTables[t] = true
	}
	checkSource := func(sel *sqlmini.Select, idx int, what string) string {
		var reads []string
		if sel.From.Join != nil {
			reads = []string{sel.From.Join.Left, sel.From.Join.Right}
		} else {
			reads = []string{sel.From.Table}
		}
		for _, name := range reads {
			if di, ok := defined[name]; ok && di < idx {
				used[name] = true
				continue
			}
			if srcTables[name] {
				continue
			}
			return fmt.Sprintf("%s reads %q, which is neither an earlier common table expression nor a table named in the source", what, name)
		}
		return ""
	}
	for i, cte := range st.CTEs {
		if _, dup := defined[cte.Name]; dup {
			return bad("which defines the common table expression %q twice", cte.Name)
		}
		if m := checkSource(cte.Sel, i, fmt.Sprintf("common table expression %q", cte.Name)); m != "" {
			return bad("in which %s", m)
		}
		defined[cte.Name] = i
	}
	if m := checkSource(st.Body, len(st.CTEs), "the final SELECT"); m != "" {
		return bad("in which %s", m)
	}
	for _, cte := range st.CTEs {
		if !used[cte.Name] {
			return bad("in which the common table expression %q is never read", cte.Name)
		}
	}
	r.Count("compiled_and_checked", 1)
	shape := sqlmini.KindSeq(sqlmini.Lex(sql, sqlmini.ClickHouse))
	if !shapes[shape] {
		shapes[shape] = true
	}
	clauses := 0
	for _, sel := range append([]*sqlmini.Select{st.Body}, selsOf(st)...) {
		if sel.Where != nil {
			clauses++
		}
		if len(sel.GroupBy) > 0 {
			clauses++
		}
		if len(sel.OrderBy) > 0 {
			clauses++
		}
		if sel.Limit != nil {
			clauses++
		}
		if sel.From.Join != nil {
			clauses++
		}
	}
	if len(st.CTEs) > 0 || clauses >= 2 {
		r.Nontrivial()
		if len(string(c.Src)) < 90 && len(st.CTEs) > 0 {
			r.Sample(map[string]any{"pql": string(c.Src), "sql": sql})
		}
	}
	return true
}

func selsOf(st *sqlmini.Stmt) []*sqlmini.Select {
	var out []*sqlmini.Select
	for _, c := range st.CTEs {
		out = append(out, c.Sel)
	}
	return out
}

// freeSides qualifies every column with $left or $right at random.
func freeSides(x *E, rng interface{ Intn(int) int }) *E {
	c := *x
	if x.K == "name" {
		if len(x.Parts) == 1 && !x.Parts[0].Quoted {
			switch x.Parts[0].Name {
			case "true", "false", "null":
				return &c
			}
		}
		c.Parts = append([]Ident{{Name: []string{"$left", "$right"}[rng.Intn(2)]}}, x.Parts...)
		return &c
	}
	c.Kids = nil
	for _, k := range x.Kids {
		c.Kids = append(c.Kids, freeSides(k, rng))
	}
	return &c
}
