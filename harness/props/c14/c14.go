// Package c14: compilation is a pure, deterministic, thread-safe function.
package c14

import (
	"bytes"
	"crypto/sha256"
	"encoding/hex"
	"encoding/json"
	"fmt"
	"os"
	"os/exec"
	"path/filepath"
	"reflect"
	"regexp"
	"runtime"
	"sort"
	"strconv"
	"strings"
	"sync"
	"sync/atomic"
	"time"

	"github.com/runreveal/pql"
	"github.com/runreveal/pql/parser"

	"verif/harness/gen"
	"verif/harness/mon"
	"verif/harness/pqlref"
)

func init() {
	mon.Register(&mon.Prop{
		ID:           "C14",
		Custom:       run,
		CustomReplay: func(c *mon.Custom, raw json.RawMessage) { runWith(c, raw) },
		Race:         true,
		Rule: "many short fresh-process histories under the Go race detector: in each child G goroutines (2-64) are released by one barrier so that their first calls (each through a built-in function, i.e. through the lazy function table) overlap, in half of the children with the build-tagged pause hook holding the initialisation open; " +
			"then a seeded mix of Compile (with lets and a SHARED CompileOptions), Parse and Scan on few distinct sources, error inputs included, and sequential A,B,A histories. oracle: zero race-detector report blocks; every recorded output equals the reference output of the same (entry point, source, options) computed as the first and only call of a fresh single-goroutine process; " +
			"the shared parameter map is deep-equal to its snapshot; nil, zero-value and empty-map options give identical results. non-trivial = distinct (child, goroutine) history with at least two different calls",
		Assumptions: []string{
			"the race detector reports happens-before races only on accesses the run performs; the harness adds no synchronisation between calls (no global stamps), so races between non-overlapping calls stay visible",
			"schedules are not enumerated: held means no report and no divergent output on the schedules produced",
		},
	})
	mon.Subcommands["c14child"] = child
	mon.Subcommands["c14seqone"] = seqOne
	mon.Subcommands["c14ref"] = ref
	mon.Subcommands["c14seq"] = seqChild
}

// the call vocabulary -------------------------------------------------------

var sources = []string{
	"T | where not(a) and b == p | take 3",
	"let q = 2; T | where isnull(a) or x > q | top q by x",
	"let a = 1; let b = a + 1; T | extend c = strcat(s, 'x'), d = iff(a == b, 1, 2) | summarize n = count(), m = countif(d > 1) by k",
	"T | join kind=inner (U | where tolower(s) == 'x') on k, $left.a == $right.b | project a, b",
	"T | join kind=bogus (U) on k",
	"T | where toupper(s) =~ 'A' | sort by now() desc, x asc nulls last | render barchart with (title='t')",
	"T | where (",
	"T | where strcat()",
	"T | as X | join (X | summarize by k) on k | count",
	"let p = 5; T | where a == p | extend p",
	"T | where $left.a == 1",
	"T | take 1.5",
	"T | project x = -(-a), y = (-a)[1], z = not(a) in (1, 2)",
	"T | where a in (1, 2, 3) and s != \"it's\" // comment\n| limit 10",
	"!",
	"",
	"T | summarize count() by ia | where iif(true, now() > 0, isnotnull(ia))",
	"T; U",
	"let lo = -1; T | where a > lo",
	"let lim2 = 99",
	"T | take 5 | where lim2 == 1",
	"let lim2 = -1;",
	"let null = 0; T | where x == null | count",
	"let true = false; T | where true and a | extend y = true",
	"let false = 1; let n = false; T | take n | where b == false",
	"let x = `q`; T",
	"\n\n   let yy = 1; let x = `q`; T | count",
	"let y = a.b; T",
	"let z = 1;\nlet y = 2 + a.b.c; T | take z",
	"T | join kind=fullouter (U) on k",
	"T | where a > 1\n| join kind=outer (U) on k",
	"let w0 = -1; T | where a > w0 and b == w1",
	"let fresh = -(3); let w2 = +fresh; T | take 3 | where w2 == fresh",
	"T | where fresh == 1 and w0 == w2",
	"T | where lo == 1 and hi == 2 and n == 3",
	"let n = -(2); let m = n * 2; T | take 3 | where x == m",
	"let hi = +5; let lo = (-(1)); T | where a > lo and a < hi",
	"let k = 'x'; T | where s == k | extend k2 = k",
	"T | where k == 1 and a == q",
	// a failure after lets have been bound, then programs that must not see those lets
	"let leaked = 1; let other = leaked + 1; T | where not()",
	"let mine = leaked + 1; T | take mine",
	"T | where leaked == other",
	// render with compound property values
	"T | render barchart with (ymax = 10 * 2, title = strcat(\"a\", \"b\"), ymin = -1, kind = f(x))",
	// the same text with different leading/trailing white space (positions differ)
	"T | extend a+1 | summarize count() by k | where (",
	"\n  T | extend a+1 | summarize count() by k | where (",
	"T | extend a+1 | summarize count(), sum(a) by k",
	"\n\n   T | extend a+1 | summarize count(), sum(a) by k",
	"T | extend a+1 | summarize count(), sum(a) by k  \n",
	"\t T | where $left.a == 1",
	"  let q = 2; T | where isnull(a) or x > q | top q by x",
	// lets that do not stand at the very start of the source (a comment, an empty
	// statement, a blank line first), then programs that use those names unbound
	"// thresholds\nlet cutoff = 10;\nEvents | where n > cutoff",
	"Events | where cutoff > 1 | project cutoff",
	"; let floor1 = 3; T | where a > floor1",
	"T | where floor1 == 0 | extend floor1",
	"\n\nlet ceil1 = 'c'; T | where s == ceil1",
	" \t// a\n// b\n;;let mid1 = true; T | where mid1",
	"T | where mid1 and ceil1 == 'd'",
	// several independent errors of one kind in one source (which is reported must not vary)
	"let n = 1; let x = n + first_col * second_col; T | take x",
	"let y = alpha1 + beta1 + gamma1 + delta1 + eps1; T",
	"T | where not() and isnull() and tolower() == toupper(a, b)",
	"T | where $left.a == $right.b and $right.c == $left.d",
	"T | extend a = strcat(), b = iff(1), c = now(2), d = count(3)",
	"T | join kind=aaa (U | join kind=bbb (V) on k) on k | join kind=ccc (W) on k",
	"let a = u1; let b = u2; let c = u3; T | where u4 == u5",
	"T | take 1.5 | take 2.5 | top 3.5 by a | limit 'x'",
	// let values that mention parameters (their meaning depends on the options of the call)
	"let v = strcat(p, '-x'); T | where s == v",
	"let lim = a + 1; let m = lim * 2; T | take lim | where x == m and s == k",
	"let v = strcat(p, '-x'); let w = v; T | extend w | where k == a",
	// one mistake through every spelling that shares its code with another (the
	// message names the spelling that was written, whichever came first in the process)
	"T | where iff(a > 1, 2)",
	"T | extend c = iif(a)",
	"T | where iif(a > 1, 2)",
	"T | extend c = iff(a)",
	"T | where tolower() == 'a'",
	"T | where toupper() == 'A'",
	"T | where isnull()",
	"T | where isnotnull()",
	"T | where count(1) > 0",
	"T | where countif() > 0",
	"T | limit 1.5",
	"T | take 'x'",
	"T | filter (",
	"T | order by",
	"T | sort by",
	"T | where now(1) > 0 | where not() | where strcat() == ''",
}

func init() {
	// for every kind of operator: a program that compiles and one that fails while that operator is being written
	ops := map[string][2]string{
		"where":      {"T | where isnull(a) or f(b)", "T | where isnull(a, b)"},
		"extend":     {"T | extend x = strcat(s, 'a') | extend y = x", "T | extend x = strcat()"},
		"project":    {"T | project a, b = tolower(s)", "T | project a, b = tolower()"},
		"summarize":  {"T | summarize n = count(), m = countif(a > 1) by k", "T | summarize n = count(1) by k"},
		"sort":       {"T | sort by iff(a, 1, 2) desc, b", "T | sort by iff(a, 1)"},
		"top":        {"T | top 3 by toupper(s) asc", "T | top 3 by toupper(s, s)"},
		"take":       {"T | take 5", "T | take now(1)"},
		"join-on":    {"T | join (U) on $left.h == $right.h, not($left.x)", "T | join (U) on $left.h == $right.h, not()"},
		"join-on2":   {"T | where p | join kind=leftouter (U | where q) on k | count", "T | where p | join kind=leftouter (U | where q) on k, isnull()"},
		"join-right": {"T | join (U | extend z = iff(a, 1, 2)) on k", "T | join (U | extend z = iff(a)) on k"},
		"let":        {"let v = strcat('a', 'b'); T | where s == v", "let v = strcat(); T | where s == v"},
		"render":     {"T | render piechart with (title = 'x')", "T | render"},
	}
	var keys []string
	for k := range ops {
		keys = append(keys, k)
	}
	sort.Strings(keys)
	for _, k := range keys {
		sources = append(sources, ops[k][1], ops[k][0])
	}
	// names that need escaping (several different ones, so that goroutines differ)
	for i, n := range []string{"a\"b", "c\\d", "e\"\\f", "g``h", "i\"j\"k", "l m\\", "\"", "\\", "n'o", "p\"q\\r\"s"} {
		id := "`" + strings.ReplaceAll(n, "`", "``") + "`"
		sources = append(sources, fmt.Sprintf("%s | where %s == %d | project %s = %s, x%d = 1 | as %s", id, id, i, id, id, i, id))
	}
	// long pipelines (a dozen subqueries) with no, one and two failing operators in different places
	for _, bad := range [][]int{{}, {3}, {3, 9}, {1, 10}, {0, 11}} {
		var sb strings.Builder
		sb.WriteString("T")
		for i := 0; i < 12; i++ {
			fn := "not(c" + fmt.Sprint(i) + ")"
			for _, b := range bad {
				if b == i {
					fn = []string{"not()", "iff(c, 1)", "isnull(a, b)"}[i%3]
				}
			}
			fmt.Fprintf(&sb, "\n| where %s | project c0, c1, c2, c3, c4, c5, c6, c7, c8, c9, c10, c11", fn)
		}
		sources = append(sources, sb.String())
	}
}

// ladderStart is the index of the first ladder source: pipelines of steadily
// growing length (more subqueries, more joins, more lets than anything else
// here), which every goroutine of a child compiles in lock-step so that each
// "first time this large" happens in all of them at the same moment.
var ladderStart int

func init() {
	ladderStart = len(sources)
	for k := 1; k <= 36; k++ {
		var sb strings.Builder
		sb.WriteString("T")
		for i := 0; i < k; i++ {
			fmt.Fprintf(&sb, " | project a, b, c | where a > %d", i)
		}
		sources = append(sources, sb.String())
	}
	for k := 1; k <= 10; k++ {
		var sb strings.Builder
		sb.WriteString("T")
		for i := 0; i < k; i++ {
			fmt.Fprintf(&sb, " | join kind=inner (U%d | where x > %d | project k, v%d = x) on k", i, i, i)
		}
		sources = append(sources, sb.String())
	}
	for k := 1; k <= 6; k++ {
		var sb strings.Builder
		for i := 0; i < k*6; i++ {
			fmt.Fprintf(&sb, "let l%d = %d; ", i, i)
		}
		fmt.Fprintf(&sb, "T | where a == l%d | take l0", k*6-1)
		sources = append(sources, sb.String())
	}
	// the same name written twice in every kind of list
	sources = append(sources,
		"T | render barchart with (title = \"a\", kind = stacked, title = \"b\", xtitle = 'x')",
		"T | render piechart with (title = \"a\", title = \"b\")",
		"T | project a, b, a = b + 1, c",
		"T | extend x = 1, y = 2, x = 3",
		"T | summarize n = count(), m = max(a), n = sum(a) by k, j, k2 = k",
		"T | sort by a, b desc, a asc",
		"let d = 1; let e = d; let d = 2; let e = d; T | where a == e | take d",
		"T | join (U) on k, k, $left.a == $right.a, $left.a == $right.a",
		"T | where a in (1, 2, 1, 2, 3) and f(a, a, a)",
		"T | as X | as Y | join (X) on k | join (Y) on k | join (X) on k")
}

func init() {
	// forty statements, five of them with different parse errors
	var sb strings.Builder
	for i := 0; i < 40; i++ {
		switch i {
		case 3:
			sb.WriteString("T | where (;\n")
		case 11:
			sb.WriteString("T | bogus x;\n")
		case 17:
			sb.WriteString("let = 5;\n")
		case 29:
			sb.WriteString("T | take 1.5 | project;\n")
		case 36:
			sb.WriteString("T | join (U on k;\n")
		default:
			fmt.Fprintf(&sb, "let v%d = %d;\n", i, i)
		}
	}
	sb.WriteString("T | take v39")
	sources = append(sources, sb.String())
}

func init() {
	// erroneous sources of one and the same length (300 bytes) whose layout
	// before the error differs: lines, tabs, multi-byte characters
	mk := func(head string) string {
		tail := " | where ("
		pad := 300 - len(head) - len(tail)
		return head + strings.Repeat(" ", pad) + tail
	}
	sources = append(sources,
		mk("T | where a == 1"),
		mk("T\n| where a == 1\n| where b == 2\n| where c == 3"),
		mk("T\t|\twhere a == 1\t\t| take 5"),
		mk("T | where s == '\u00e9\u00e9\u00e9\u65e5\u672c\U0001F600' | where t == 'x'"),
		mk("T\n\n\n\n\n| where a == 1 // c\n"),
		mk("let x = 1;\nlet y = 2;\n\tT | where a == x"))
}

func optionSet() []*pql.CompileOptions {
	shared := &pql.CompileOptions{Parameters: map[string]string{"p": "$1", "a": "{a:Int64}", "k": "?"}}
	// the same three among seventeen: a larger map may be handled differently
	wide := &pql.CompileOptions{Parameters: map[string]string{"p": "$1", "a": "{a:Int64}", "k": "?"}}
	for i := 0; i < 14; i++ {
		wide.Parameters[fmt.Sprintf("w%d", i)] = fmt.Sprintf("$%d", 10+i)
	}
	// keys that differ only in letter case or in surrounding white space are different keys
	odd := &pql.CompileOptions{Parameters: map[string]string{"p": "$1", "p ": "$2", " p": "$3", "P": "$4", "a": "{a:Int64}", "A": "{A:Int64}", "a\t": "{t:Int64}", "k": "?", "": "$9"}}
	// the same names bound to other values (what a call returns depends on its own options only)
	other := &pql.CompileOptions{Parameters: map[string]string{"p": "$7", "a": "{z:Int64}", "k": "'kk'"}}
	return []*pql.CompileOptions{nil, {}, {Parameters: map[string]string{}}, shared, wide, odd, other}
}

var optNames = []string{"nil", "zero", "empty-map", "shared{p,a,k}", "shared{p,a,k,w0..w13}", "shared{p,'p ',' p',P,a,A,k,''}", "other{p,a,k}"}

// snapshotParams copies every parameter map of an option set.
func snapshotParams(opts []*pql.CompileOptions) []map[string]string {
	out := make([]map[string]string, len(opts))
	for i, o := range opts {
		if o != nil && o.Parameters != nil {
			out[i] = map[string]string{}
			for k, v := range o.Parameters {
				out[i][k] = v
			}
		}
	}
	return out
}

// paramsIntact compares every parameter map with its snapshot.
func paramsIntact(opts []*pql.CompileOptions, snap []map[string]string) bool {
	for i, o := range opts {
		if snap[i] != nil && !reflect.DeepEqual(snap[i], o.Parameters) {
			return false
		}
	}
	return true
}

type callID struct {
	Entry string `json:"e"` // compile parse scan
	Src   int    `json:"s"`
	Opt   int    `json:"o"`
}

func (c callID) String() string {
	return fmt.Sprintf("%s(src#%d, opts=%s)", c.Entry, c.Src, optNames[c.Opt])
}

func doCall(c callID, opts []*pql.CompileOptions) string {
	out, _ := doCallErr(c, opts)
	return out
}

// sharedTrees holds one parsed tree per source, parsed once per process and
// then only read: traversals and Span() calls on it from many goroutines.
var sharedTrees struct {
	mu sync.Mutex
	m  map[int][]parser.Statement
}

func sharedTree(s int) []parser.Statement {
	sharedTrees.mu.Lock()
	defer sharedTrees.mu.Unlock()
	if sharedTrees.m == nil {
		sharedTrees.m = map[int][]parser.Statement{}
	}
	if t, ok := sharedTrees.m[s]; ok {
		return t
	}
	t, err := parser.Parse(sources[s])
	if err != nil {
		t = nil // only successfully parsed statements are walked
	}
	sharedTrees.m[s] = t
	return t
}

// doCallErr performs one call and also returns the error value it produced, so
// that the caller can look at it again later.
func doCallErr(c callID, opts []*pql.CompileOptions) (string, error) {
	src := sources[c.Src]
	switch c.Entry {
	case "compile":
		sql, err := opts[c.Opt].Compile(src)
		if c.Opt == 0 && c.Src%2 == 0 {
			sql, err = pql.Compile(src)
		}
		return fmt.Sprintf("sql=%q err=%v", sql, err), err
	case "parse":
		st, err := parser.Parse(src)
		return fmt.Sprintf("tree=%s err=%v", pqlref.Dump(st, 0, true), err), err
	case "walk":
		// a read-only use of a tree other goroutines read too: Walk and Span()
		var sb strings.Builder
		for _, st := range sharedTree(c.Src) {
			parser.Walk(st, func(n parser.Node) bool {
				if pqlref.IsNilNode(n) {
					sb.WriteString("nil;")
					return false
				}
				fmt.Fprintf(&sb, "%T%v;", n, n.Span())
				return true
			})
			for _, rn := range pqlref.Reach(st) {
				fmt.Fprintf(&sb, "%v", rn.Node.Span())
			}
		}
		return sb.String(), nil
	default:
		return fmt.Sprint(parser.Scan(src)), nil
	}
}

func hashOf(s string) string {
	h := sha256.Sum256([]byte(s))
	return hex.EncodeToString(h[:8])
}

// isLadder: source s is one of the 52 growing pipelines.
func isLadder(s int) bool { return s >= ladderStart && s < ladderStart+52 }

func allCalls() []callID {
	var out []callID
	for s := range sources {
		if isLadder(s) {
			out = append(out, callID{"compile", s, 0}, callID{"compile", s, 3})
			continue
		}
		for o := range optNames {
			out = append(out, callID{"compile", s, o})
		}
		out = append(out, callID{"parse", s, 0}, callID{"scan", s, 0}, callID{"walk", s, 0})
	}
	return out
}

// ref: one call as the first and only call of a fresh process ---------------

func ref(args []string) {
	var c callID
	json.Unmarshal([]byte(args[0]), &c)
	out := doCall(c, optionSet())
	fmt.Print(out)
}

// child: one concurrent history ----------------------------------------------

type record struct {
	G    int    `json:"g"`
	N    int    `json:"n"`
	Call callID `json:"c"`
	Hash string `json:"h"`
}

type childReport struct {
	Records        []record          `json:"records"`
	Outputs        map[string]string `json:"outputs"`
	ParamsIntact   bool              `json:"params_intact"`
	ParamsNow      map[string]string `json:"params_now"`
	InFlightAtInit int64             `json:"in_flight_at_init"`
	PauseHits      int64             `json:"pause_hits"`
	Panics         []string          `json:"panics"`
}

func child(args []string) {
	seed, _ := strconv.ParseInt(args[0], 10, 64)
	G, _ := strconv.Atoi(args[1])
	N, _ := strconv.Atoi(args[2])
	pause := args[3] == "1"
	outFile := args[4]
	ladder := len(args) > 5 && args[5] == "1"
	var arrived atomic.Int64
	opts := optionSet()
	shared := opts[3]
	snapshot := snapshotParams(opts)
	var started, inFlight, pauseHits atomic.Int64
	if pause {
		pql.VerifPauseHook = func(site int) {
			if site == 1 {
				// inside the once-body: how many goroutines have begun their first call?
				inFlight.Store(started.Load())
				pauseHits.Add(1)
				time.Sleep(3 * time.Millisecond)
				return
			}
			// site 2 runs in every Compile: no synchronisation here, only a yield
			runtime.Gosched()
		}
	}
	calls := allCalls()
	recs := make([][]record, G)
	outs := make([]map[string]string, G)
	panics := make([][]string, G)
	barrier := make(chan struct{})
	var wg sync.WaitGroup
	for g := 0; g < G; g++ {
		wg.Add(1)
		go func(g int) {
			defer wg.Done()
			rng := gen.RNG(seed, fmt.Sprint("g", g))
			outs[g] = map[string]string{}
			<-barrier
			started.Add(1)
			var prevErr error
			var prevText string
			var prevCall callID
			call := func(n int, c callID) {
				defer func() {
					if p := recover(); p != nil {
						panics[g] = append(panics[g], fmt.Sprintf("%s: %v", c, p))
					}
				}()
				out, errObj := doCallErr(c, opts)
				h := hashOf(out)
				outs[g][h] = out
				recs[g] = append(recs[g], record{g, n, c, h})
				// the error value of the previous call is read once more: what a call
				// returned must not change when later calls are made
				if prevErr != nil {
					if now := prevErr.Error(); now != prevText {
						panics[g] = append(panics[g], fmt.Sprintf("the error returned by %s read %q when it was returned and reads %q after %s", prevCall, prevText, now, c))
					}
				}
				prevErr, prevCall = errObj, c
				if errObj != nil {
					prevText = errObj.Error()
				}
			}
			if ladder {
				for k := 0; k < 52; k++ {
					// every goroutine arrives, then all compile the k-th pipeline at once
					arrived.Add(1)
					for arrived.Load() < int64(G*(k+1)) {
						runtime.Gosched()
					}
					call(-1-k, callID{"compile", ladderStart + k, []int{0, 3}[(g+k)%2]})
				}
				// and every other source once, again all goroutines at the same
				// moment: whatever a source touches for the first time in the
				// process (an error path, a lazily built table) is touched concurrently
				step := 52
				for si := range sources {
					if isLadder(si) {
						continue
					}
					arrived.Add(1)
					for arrived.Load() < int64(G*(step+1)) {
						runtime.Gosched()
					}
					step++
					call(-100-si, callID{"compile", si, []int{0, 3, 1, 4}[(g+si)%4]})
				}
			}
			for n := 0; n < N; n++ {
				var c callID
				if n == 0 {
					// first call goes through a built-in function
					c = callID{"compile", []int{0, 1, 2, 3, 5}[g%5], []int{3, 0, 3, 1}[g%4]}
				} else {
					c = calls[rng.Intn(len(calls))]
					if rng.Intn(3) == 0 {
						c = callID{"compile", rng.Intn(len(sources)), 3} // few keys, many goroutines
					}
				}
				call(n, c)
			}
		}(g)
	}
	close(barrier)
	wg.Wait()
	rep := childReport{Outputs: map[string]string{}}
	for g := range recs {
		rep.Records = append(rep.Records, recs[g]...)
		for h, o := range outs[g] {
			rep.Outputs[h] = o
		}
		rep.Panics = append(rep.Panics, panics[g]...)
	}
	// sequential history: A, B, A with the same options
	seq := []callID{{"compile", 1, 3}, {"compile", 9, 3}, {"compile", 0, 3}, {"compile", 1, 3}, {"compile", 9, 0}, {"compile", 1, 3}}
	for i := range sources {
		// every source again, sequentially, in an order that depends on the seed
		j := (i*7 + int(seed%int64(len(sources)))) % len(sources)
		if j < 0 {
			j += len(sources)
		}
		if isLadder(j) {
			seq = append(seq, callID{"compile", j, 3})
			continue
		}
		seq = append(seq, callID{"compile", j, int((seed+int64(i))%int64(len(optNames))+int64(len(optNames))) % len(optNames)}, callID{"parse", j, 0})
	}
	for _, c := range seq {
		out := doCall(c, opts)
		h := hashOf(out)
		rep.Outputs[h] = out
		rep.Records = append(rep.Records, record{-1, len(rep.Records), c, h})
	}
	rep.ParamsIntact = paramsIntact(opts, snapshot)
	rep.ParamsNow = shared.Parameters
	if !reflect.DeepEqual(snapshot[4], opts[4].Parameters) {
		rep.ParamsNow = opts[4].Parameters
	}
	rep.InFlightAtInit = inFlight.Load()
	rep.PauseHits = pauseHits.Load()
	b, _ := json.Marshal(&rep)
	os.WriteFile(outFile, b, 0o644)
}

// seqChild: one long sequential history of generated calls, executed in a
// given order; the same multiset of calls in another order (another process)
// must give the same result for every call.
func seqCalls(seed int64, n int) (srcs []string, opt []int) {
	rng := gen.RNG(seed, "c14seq")
	vg := &gen.Valid{Rng: rng}
	seeds := gen.Seeds()
	corpus := gen.NewCorpus(seeds, 1)
	// many distinct things of each kind a process might remember (names that
	// need escaping, strings, numbers, function names, table names), far more
	// than any small cache holds, each used again later
	distinct := func(k int) string {
		return fmt.Sprintf("`t%d\"x` | where `c\\%d` == 'v%d' and f%d(a) > %d | project `c\\%d`, n%d = %d | as `s%d\"`", k, k, k, k, 1000+k, k, k, k, k)
	}
	big := func(k int, ok bool) string {
		var sb strings.Builder
		sb.WriteString("T")
		for sb.Len() < 70_000 {
			fmt.Fprintf(&sb, "\n| where c%d == 'a fairly long literal to make the source large, number %d' or isnull(c%d)", k, sb.Len(), k)
		}
		if !ok {
			sb.WriteString(" | where (")
		}
		return sb.String()
	}
	for i := 0; i < n; i++ {
		var s string
		if i >= 20 && i < 34 {
			// sources of 70 KB: six that do not parse, then ones that do, then one more of each
			srcs = append(srcs, big(i, i >= 26 && i != 33))
			opt = append(opt, rng.Intn(len(optNames)))
			continue
		}
		if i%3 == 0 && i/3 < 400 {
			k := i / 3
			if k >= 200 {
				k = (k - 200) * 7 % 200 // the early ones again, in another order
			}
			srcs = append(srcs, distinct(k))
			opt = append(opt, rng.Intn(len(optNames)))
			continue
		}
		switch i % 5 {
		case 0, 1:
			s = pqlref.Print(vg.Program(), pqlref.Layout{Mode: i % 2}).Src
		case 2:
			s = corpus.Mutant(rng)
		case 3:
			s = sources[rng.Intn(len(sources))]
		default:
			// an earlier call again (repeats are where caches live), sometimes with different leading white space
			if len(srcs) > 0 {
				s = srcs[rng.Intn(len(srcs))]
				if rng.Intn(3) == 0 {
					s = []string{" ", "\n", "\t  "}[rng.Intn(3)] + s
				}
			} else {
				s = "T"
			}
		}
		srcs = append(srcs, s)
		opt = append(opt, rng.Intn(len(optNames)))
	}
	return
}

// seqOne performs call i of a history as the first and only call of the process.
func seqOne(args []string) {
	seed, _ := strconv.ParseInt(args[0], 10, 64)
	n, _ := strconv.Atoi(args[1])
	i, _ := strconv.Atoi(args[2])
	srcs, opt := seqCalls(seed, n)
	opts := optionSet()
	opts[opt[i]].Compile(srcs[i])
	parser.Parse(srcs[i])
	parser.Scan(srcs[i])
	fmt.Print("returned")
}

func seqChild(args []string) {
	seed, _ := strconv.ParseInt(args[0], 10, 64)
	n, _ := strconv.Atoi(args[1])
	order := args[2] // forward | reverse | shuffle
	outFile := args[3]
	srcs, opt := seqCalls(seed, n)
	if os.Getenv("VERIF_C14SEQ_DUMP") != "" {
		for i, s := range srcs {
			fmt.Fprintf(os.Stderr, "%d\t%d\t%q\n", i, opt[i], s)
		}
	}
	idx := make([]int, n)
	for i := range idx {
		idx[i] = i
	}
	switch order {
	case "reverse":
		for i, j := 0, n-1; i < j; i, j = i+1, j-1 {
			idx[i], idx[j] = idx[j], idx[i]
		}
	case "shuffle":
		gen.RNG(seed, "order").Shuffle(n, func(i, j int) { idx[i], idx[j] = idx[j], idx[i] })
	}
	opts := optionSet()
	snapshot := snapshotParams(opts)
	res := make([]string, n)
	// a call that does not return within a generous wall-clock allowance ends the
	// history: the calls made so far are reported, the stalled one is marked (the
	// coordinator compares with the other orders, in which that call may return)
	var current atomic.Int64
	current.Store(-1)
	var progress atomic.Int64
	go func() {
		last, since := int64(-1), time.Now()
		for {
			time.Sleep(200 * time.Millisecond)
			if p := progress.Load(); p != last {
				last, since = p, time.Now()
				continue
			}
			if time.Since(since) > 25*time.Second {
				if i := current.Load(); i >= 0 {
					res[i] = "STALLED"
				}
				b, _ := json.Marshal(res)
				os.WriteFile(outFile, b, 0o644)
				os.Exit(0)
			}
		}
	}()
	for _, i := range idx {
		current.Store(int64(i))
		progress.Add(1)
		func() {
			defer func() {
				if p := recover(); p != nil {
					res[i] = fmt.Sprintf("PANIC %v", p)
				}
			}()
			sql, err := opts[opt[i]].Compile(srcs[i])
			st, perr := parser.Parse(srcs[i])
			res[i] = hashOf(fmt.Sprintf("sql=%q err=%v tree=%s perr=%v toks=%v", sql, err, pqlref.Dump(st, 0, true), perr, parser.Scan(srcs[i])))
		}()
	}
	if !paramsIntact(opts, snapshot) {
		res = append(res, "PARAMS-MODIFIED")
	}
	b, _ := json.Marshal(res)
	os.WriteFile(outFile, b, 0o644)
}

// coordinator -----------------------------------------------------------------

var raceBlock = regexp.MustCompile(`(?s)WARNING: DATA RACE.*?==================`)

func run(c *mon.Custom) { runWith(c, nil) }

// runWith runs the check; with a recorded case it re-runs that child
// configuration (several times, schedules vary) instead of the seeded set.
func runWith(c *mon.Custom, replayCase json.RawMessage) {
	race := c.Self
	plain := strings.TrimSuffix(c.Self, "-race")
	c.SetShards(16)
	// 1. reference outputs, one fresh process per distinct call
	calls := allCalls()
	refs := make([]string, len(calls))
	var wg sync.WaitGroup
	sem := make(chan struct{}, 16)
	var failed atomic.Int64
	for i, cl := range calls {
		wg.Add(1)
		go func(i int, cl callID) {
			defer wg.Done()
			sem <- struct{}{}
			defer func() { <-sem }()
			arg, _ := json.Marshal(cl)
			cmd := exec.Command("timeout", "-s", "KILL", "120", plain, "c14ref", string(arg))
			var out, errb bytes.Buffer
			cmd.Stdout, cmd.Stderr = &out, &errb
			if err := cmd.Run(); err != nil {
				failed.Add(1)
				refs[i] = "REFERENCE-PROCESS-FAILED: " + err.Error() + " " + clip(errb.String(), 300)
				return
			}
			refs[i] = out.String()
		}(i, cl)
	}
	wg.Wait()
	refOf := map[callID]string{}
	for i, cl := range calls {
		refOf[cl] = refs[i]
	}
	c.Count("reference_processes", int64(len(calls)))
	if failed.Load() > 0 {
		// a call that kills a fresh process is C12's business; here it makes those calls undecidable
		c.Count("reference_calls_failed", failed.Load())
	}
	// nil / zero / empty-map equivalence, judged on the reference outputs
	for s := range sources {
		if isLadder(s) {
			continue // compiled with two option values only
		}
		a := refOf[callID{"compile", s, 0}]
		for o := 1; o <= 2; o++ {
			if b := refOf[callID{"compile", s, o}]; a != b && !strings.HasPrefix(a, "REFERENCE-PROCESS-FAILED") {
				c.Violation(fmt.Sprintf("opts-equivalence|%d|%d", s, o), "", fmt.Sprintf("nil options and %s options give different results for %q:\n  nil:  %s\n  %s: %s", optNames[o], sources[s], a, optNames[o], b),
					map[string]any{"src": sources[s]})
			}
		}
	}
	// 2. concurrent children under the race detector
	nChildren := 24
	callsPer := 50
	if !c.Quick() {
		nChildren, callsPer = 400, 60
	}
	rng := gen.RNG(c.Seed, "c14")
	type job struct {
		k, G  int
		seed  int64
		pause bool
	}
	var jobs []job
	gs := []int{2, 3, 4, 8, 16, 32, 64}
	for k := 0; k < nChildren; k++ {
		jobs = append(jobs, job{k, gs[k%len(gs)], rng.Int63(), k%2 == 0})
	}
	if replayCase != nil {
		var rc struct {
			Seed       int64 `json:"seed"`
			Goroutines int   `json:"goroutines"`
			Calls      int   `json:"calls"`
			Pause      bool  `json:"pause"`
		}
		json.Unmarshal(replayCase, &rc)
		if rc.Goroutines > 0 {
			jobs = nil
			if rc.Calls > 0 {
				callsPer = rc.Calls
			}
			for k := 0; k < 10; k++ {
				jobs = append(jobs, job{k, rc.Goroutines, rc.Seed, rc.Pause})
			}
		}
	}
	var mu sync.Mutex
	raceSeen := map[string]bool{}
	par := make(chan struct{}, 8)
	for _, j := range jobs {
		wg.Add(1)
		go func(j job) {
			defer wg.Done()
			par <- struct{}{}
			defer func() { <-par }()
			if c.ViolationCount() >= 5 {
				return
			}
			outFile := filepath.Join(c.Dir, fmt.Sprintf("child%d.json", j.k))
			logBase := filepath.Join(c.Dir, fmt.Sprintf("race%d", j.k))
			p := "0"
			if j.pause {
				p = "1"
			}
			cmd := exec.Command("timeout", "-s", "KILL", "600", race, "c14child", fmt.Sprint(j.seed), fmt.Sprint(j.G), fmt.Sprint(callsPer), p, outFile, map[bool]string{true: "1", false: "0"}[j.k%3 != 0])
			cmd.Env = append(os.Environ(), "GORACE=halt_on_error=0 log_path="+logBase)
			var errb bytes.Buffer
			cmd.Stderr = &errb
			err := cmd.Run()
			// race reports
			logs, _ := filepath.Glob(logBase + ".*")
			var reports []string
			for _, lf := range logs {
				b, _ := os.ReadFile(lf)
				reports = append(reports, raceBlock.FindAllString(string(b), -1)...)
			}
			desc := fmt.Sprintf("child %d: %d goroutines x %d calls, seed %d, pause hook %v", j.k, j.G, callsPer, j.seed, j.pause)
			for _, rp := range reports {
				key := raceKey(rp)
				mu.Lock()
				dup := raceSeen[key]
				raceSeen[key] = true
				mu.Unlock()
				c.Count("race_report_blocks", 1)
				if !dup {
					c.Violation("race|"+key, "", "the race detector reports a data race ("+desc+"):\n"+clip(rp, 2500), map[string]any{"seed": j.seed, "goroutines": j.G, "calls": callsPer, "pause": j.pause})
				}
			}
			b, rerr := os.ReadFile(outFile)
			if rerr != nil {
				if err != nil && len(reports) == 0 {
					c.Violation(fmt.Sprintf("child-died|%d", j.k), "", "a concurrent history killed the process ("+desc+"): "+err.Error()+"\n"+clip(errb.String(), 2000), map[string]any{"seed": j.seed, "goroutines": j.G})
				}
				return
			}
			var rep childReport
			if json.Unmarshal(b, &rep) != nil {
				c.HarnessError("unreadable child report " + outFile)
				return
			}
			for _, pn := range rep.Panics {
				c.Violation("panic|"+pn, "", "a concurrent call panicked ("+desc+"): "+pn, map[string]any{"seed": j.seed})
			}
			if !rep.ParamsIntact {
				c.Violation(fmt.Sprintf("params|%d", j.k), "", fmt.Sprintf("Compile modified the caller's parameter map (%s): now %v", desc, rep.ParamsNow), map[string]any{"seed": j.seed})
			}
			perG := map[int]map[callID]bool{}
			for _, r := range rep.Records {
				want, ok := refOf[r.Call]
				if !ok || strings.HasPrefix(want, "REFERENCE-PROCESS-FAILED") {
					c.Inconclusive("no_reference_for_call")
					continue
				}
				if hashOf(want) != r.Hash {
					c.Violation(fmt.Sprintf("diverge|%v", r.Call), "", fmt.Sprintf("%s on %q returned a different result in a concurrent/repeated history than as the first and only call of a fresh process (%s, goroutine %d, call %d):\n  history:   %s\n  reference: %s",
						r.Call, sources[r.Call.Src], desc, r.G, r.N, clip(rep.Outputs[r.Hash], 600), clip(want, 600)), map[string]any{"seed": j.seed, "call": r.Call})
					continue
				}
				c.Count("calls_compared", 1)
				if perG[r.G] == nil {
					perG[r.G] = map[callID]bool{}
				}
				perG[r.G][r.Call] = true
			}
			for g, set := range perG {
				c.Decided(len(set) >= 2, nil)
				_ = g
			}
			c.MaxOf("max_goroutines_in_flight_at_first_use", rep.InFlightAtInit)
			if rep.PauseHits > 0 {
				c.Count("children_with_init_held_open", 1)
				c.SetAdd("goroutines_in_flight_at_init", fmt.Sprintf("%d of %d", rep.InFlightAtInit, j.G))
			}
			c.Count("children", 1)
			c.SetAdd("goroutine_counts", fmt.Sprint(j.G))
		}(j)
	}
	wg.Wait()
	// 3. order independence of long sequential histories (plain build)
	if replayCase == nil {
		nSeq := 3
		nCalls := 1500
		if !c.Quick() {
			nSeq, nCalls = 40, 4000
		}
		seqSeeds := make([]int64, nSeq)
		for k := range seqSeeds {
			seqSeeds[k] = rng.Int63()
		}
		for k := 0; k < nSeq; k++ {
			wg.Add(1)
			go func(k int) {
				defer wg.Done()
				par <- struct{}{}
				defer func() { <-par }()
				sseed := seqSeeds[k]
				var results [3][]string
				for oi, order := range []string{"forward", "reverse", "shuffle"} {
					out := filepath.Join(c.Dir, fmt.Sprintf("seq%d.%s.json", k, order))
					cmd := exec.Command("timeout", "-s", "KILL", "600", plain, "c14seq", fmt.Sprint(sseed), fmt.Sprint(nCalls), order, out)
					if err := cmd.Run(); err != nil {
						c.Inconclusive("sequential_history_process_failed")
						return
					}
					b, _ := os.ReadFile(out)
					json.Unmarshal(b, &results[oi])
				}
				srcs, opt := seqCalls(sseed, nCalls)
				// a call that did not return in a history is made once more as the
				// first and only call of a fresh process: if it returns there, whether
				// it returns depends on the calls before it
				for oi := 0; oi < 3; oi++ {
					for i, v := range results[oi] {
						if v != "STALLED" {
							continue
						}
						out, err := exec.Command("timeout", "-s", "KILL", "90", plain, "c14seqone", fmt.Sprint(sseed), fmt.Sprint(nCalls), fmt.Sprint(i)).Output()
						if err == nil && string(out) == "returned" {
							c.Violation(fmt.Sprintf("seq-stall|%d|%d", k, i), "", fmt.Sprintf("whether a call returns depends on the calls made before it: Compile/Parse/Scan of %q returns as the first and only call of a fresh process, and does not return within 25 s as call %d of a history of %d calls executed %s (history seed %d)",
								clip(srcs[i], 200), i, nCalls, []string{"forward", "in reverse", "shuffled"}[oi], sseed), map[string]any{"seq_seed": sseed, "call": i})
							return
						}
						c.Inconclusive("sequential_history_call_does_not_return_alone_either")
					}
				}
				for oi := 1; oi < 3; oi++ {
					if len(results[oi]) != len(results[0]) {
						c.Violation(fmt.Sprintf("seq-params|%d", k), "", "a sequential history modified the shared parameter map in one order but not in another", map[string]any{"seed": sseed})
						return
					}
					for i := range results[0] {
						a, b := results[0][i], results[oi][i]
						if a == "" || b == "" {
							continue // not reached in one of the orders (its history ended at a stalled call)
						}
						if (a == "STALLED") != (b == "STALLED") {
							src := "?"
							if i < len(srcs) {
								src = clip(srcs[i], 200)
							}
							c.Violation(fmt.Sprintf("seq-stall|%d|%d", k, i), "", fmt.Sprintf("whether a call returns depends on the calls made before it: Compile/Parse/Scan of %q does not return within 25 s in a history of %d calls executed %s, and returns when the history is executed %s (history seed %d, call %d)",
								src, nCalls, []string{"forward", "in reverse", "shuffled"}[map[bool]int{true: 0, false: oi}[a == "STALLED"]], []string{"forward", "in reverse", "shuffled"}[map[bool]int{true: oi, false: 0}[a == "STALLED"]], sseed, i), map[string]any{"seq_seed": sseed, "call": i})
							return
						}
						if a == "STALLED" {
							c.Inconclusive("sequential_history_call_stalls_in_every_order")
							continue
						}
						if results[0][i] != results[oi][i] {
							src := "(parameter map check)"
							if i < len(srcs) {
								src = srcs[i]
							}
							o := 0
							if i < len(opt) {
								o = opt[i]
							}
							c.Violation(fmt.Sprintf("seq-order|%d|%d", k, i), "", fmt.Sprintf("the same call gives different results depending on the calls made before it: Compile/Parse/Scan of %q with %s options, in a history of %d calls executed forward vs %s (history seed %d, call %d)",
								src, optNames[o], nCalls, []string{"", "in reverse", "shuffled"}[oi], sseed, i), map[string]any{"seq_seed": sseed, "call": i})
							return
						}
					}
				}
				if len(results[0]) > nCalls {
					c.Violation(fmt.Sprintf("seq-params|%d", k), "", "a sequential history modified the shared parameter map", map[string]any{"seed": sseed})
					return
				}
				c.Count("sequential_history_calls_compared", int64(2*nCalls))
				c.Decided(true, nil)
			}(k)
		}
		wg.Wait()
	}
	c.Decided(true, map[string]any{"distinct_calls": len(calls), "sources": len(sources), "options": optNames, "example_reference": clip(refOf[callID{"compile", 0, 3}], 300)})
}

func raceKey(rp string) string {
	// outermost frames of the two stacks, line numbers stripped
	lines := strings.Split(rp, "\n")
	var fns []string
	for _, l := range lines {
		l = strings.TrimSpace(l)
		if strings.HasPrefix(l, "github.com/runreveal/pql") {
			if i := strings.Index(l, "("); i > 0 {
				l = l[:i]
			}
			fns = append(fns, l)
		}
	}
	sort.Strings(fns)
	if len(fns) > 4 {
		fns = fns[:4]
	}
	return strings.Join(fns, "|")
}

func clip(s string, n int) string {
	if len(s) > n {
		return s[:n] + "…"
	}
	return s
}
