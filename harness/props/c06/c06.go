// Package c06: let bindings and parameters follow the documented scoping rules.
package c06

import (
	"encoding/json"
	"fmt"
	"sort"
	"strings"

	"verif/harness/exprpos"
	"verif/harness/gen"
	"verif/harness/mon"
	. "verif/harness/pqlref"
	"verif/harness/sqlmini"
	"verif/harness/val"
)

// LetDef is one let statement.
type LetDef struct {
	Name string `json:"name"`
	X    *E     `json:"x"`
}

// Case is a program = parameters + lets + query, or a raw pair for the
// metamorphic "binding is irrelevant here" family.
type Case struct {
	Params map[string]string `json:"params,omitempty"`
	Lets   []LetDef          `json:"lets,omitempty"`
	X      *E                `json:"x,omitempty"`
	Pos    string            `json:"pos,omitempty"`
	Seed   int64             `json:"seed"`
	// LetParens: 0 = let values get random redundant parentheses; n > 0 = every
	// let value is written inside n-1 pairs of redundant parentheses.
	LetParens int `json:"letparens,omitempty"`
	// NoSubst: Query must compile to the same SQL with and without the binding Name.
	NoSubst *NoSubst `json:"nosubst,omitempty"`
	// Verbatim: Query compiled with parameter Name bound to Value must equal the
	// output for a marker value with the marker replaced by Value.
	Verbatim *Verbatim `json:"verbatim,omitempty"`
	ByHand   *ByHand   `json:"byhand,omitempty"`
}

// ByHand: Query has %s at its use sites and %a at positions where the same
// name stands as an alias, quoted, qualified or as a function name. Compiled
// with the name bound to a number, it must equal the query with the number
// written at the use sites by hand and no binding.
type ByHand struct {
	Query  string `json:"query"`
	Name   string `json:"name"`
	ViaLet bool   `json:"via_let"`
}

type Verbatim struct {
	Query string  `json:"query"`
	Name  string  `json:"name"`
	Value mon.Str `json:"value"`
}

type NoSubst struct {
	Query string `json:"query"`
	Name  string `json:"name"`
}

func init() {
	mon.Register(&mon.Prop{
		ID:       "C06",
		Generate: generate,
		Replay: func(raw json.RawMessage, r *mon.R) {
			var c Case
			json.Unmarshal(raw, &c)
			Check(&c, r)
		},
		Rule: "programs = parameter map (placeholders and literal snippets; names colliding with columns, built-in constants and let names) + let sequence (chains, shadowing of lets and parameters, redefinition from the old value, unused lets; values: literal, signed literal, sum, comparison, call, built-in rewrite, reference) " +
			"+ a seeded typed expression using the bound names in every operand slot, at each expression position (where, project, extend, summarize, sort, top, take, join on). oracle: lexical scoping model on the generator's trees (a binding is one operand) evaluated on enumerated rows against the emitted SQL with the same placeholder bindings; " +
			"metamorphic: adding an unused let or parameter, or lets after the query (including ones that would not compile), leaves the SQL unchanged; 14 families of non-substitution positions (quoted, qualified, function name, table, aliases, as, render, join table) compile to the same SQL with and without the binding. " +
			"by hand: a query in which the bound name also stands as an alias, quoted, qualified or as a function name before and between its uses compiles, with the name bound to a number, to the SQL of the query with the number written at the use sites and no binding. " +
			"non-trivial = distinct program with at least one let or parameter actually used and two operator nodes",
		FloorQuick: 4_000, FloorThorough: 150_000,
		Assumptions: []string{
			"a parameter's meaning is the meaning of its SQL snippet read as one operand; snippets are placeholders ($1, {s:String}) or single literals / parenthesised expressions",
			"a bare join key that is also a binding name, and bindings used as sort or group keys, are not generated (DESIGN.md section 7)",
		},
	})
}

type snippet struct {
	text string
	ty   gen.Ty
	v    val.V
}

var snippets = []snippet{
	{"$1", gen.TInt, val.I(5)}, {"$2", gen.TInt, val.I(-3)}, {"{n:Int64}", gen.TInt, val.I(2)}, {"42", gen.TInt, val.I(42)}, {"(1 + 2)", gen.TInt, val.I(3)}, {"(-7)", gen.TInt, val.I(-7)},
	{"{s:String}", gen.TStr, val.S("Ab")}, {"'q'", gen.TStr, val.S("q")}, {"$3", gen.TStr, val.S("")},
	{"{b:Bool}", gen.TBool, val.TRUE}, {"$4", gen.TBool, val.FALSE}, {"NULL", gen.TInt, val.NULL}, {"(\"ia\" + 1)", gen.TInt, val.ERR},
}

var placeholderVals = map[string]val.V{}

func init() {
	for _, s := range snippets {
		if strings.HasPrefix(s.text, "$") || strings.HasPrefix(s.text, "{") {
			placeholderVals[s.text] = s.v
		}
	}
}

// names a binding may take: fresh names, column names, built-in constants,
// function and table names.
var bindNames = []string{"p", "q", "v", "w", "n", "lim", "ia", "sa", "ba", "ib", "true", "null", "count", "T", "U", "fi", "r", "g", "k",
	// every class of first character an identifier may have, and odd continuations
	"$p", "_p", "P", "Zq", "$", "_", "p_1", "$9x", "__subquery0",
	// words that are keywords elsewhere or might become keywords
	"distinct", "contains", "has", "set", "between", "away", "project", "datetime"}

func generate(w *mon.W) {
	rng := gen.RNG(w.Seed, "c06")
	n := w.Pick(6_000, 250_000)
	positions := []string{"where", "project", "extend", "extend-unnamed", "summarize-agg", "summarize-key", "top", "take", "join-on", "where", "extend", "join-on-nested"}
	for i := 0; i < n && !w.Stopped(); i++ {
		c := &Case{Params: map[string]string{}, Seed: rng.Int63(), Pos: positions[i%len(positions)]}
		bound := map[gen.Ty][]string{}
		ty := map[string]gen.Ty{}
		bind := func(name string, t gen.Ty) {
			if old, ok := ty[name]; ok {
				l := bound[old]
				for j, x := range l {
					if x == name {
						bound[old] = append(l[:j:j], l[j+1:]...)
						break
					}
				}
			}
			ty[name] = t
			bound[t] = append(bound[t], name)
		}
		for k := rng.Intn(3); k > 0; k-- {
			s := snippets[rng.Intn(len(snippets)-1)]
			name := bindNames[rng.Intn(len(bindNames))]
			c.Params[name] = s.text
			bind(name, s.ty)
		}
		for k := rng.Intn(4); k > 0; k-- {
			t := gen.Ty(rng.Intn(3))
			b2 := map[gen.Ty][]string{}
			for tt, l := range bound {
				b2[tt] = append([]string{}, l...)
			}
			g := &gen.ExprGen{Rng: rng, NoCols: true, Bound: b2}
			x := g.Gen(t, rng.Intn(4))
			name := bindNames[rng.Intn(len(bindNames))]
			c.Lets = append(c.Lets, LetDef{name, x})
			bind(name, t)
		}
		g := &gen.ExprGen{Rng: rng, Cols: gen.DefaultCols(), Bound: bound, IllTyped: 12, Agg: c.Pos == "summarize-agg"}
		var t gen.Ty
		switch c.Pos {
		case "where", "join-on", "join-on-nested":
			t = gen.TBool
		case "take":
			t = gen.TInt
		default:
			t = gen.Ty(rng.Intn(3))
		}
		c.X = g.Gen(t, 1+rng.Intn(5))
		if i%13 == 5 {
			// `project name` where name is a parameter or let (or a plain column)
			var names []string
			for n := range ty {
				names = append(names, n)
			}
			sort.Strings(names)
			if len(names) > 0 && rng.Intn(4) != 0 {
				c.X = Name(names[rng.Intn(len(names))])
				if rng.Intn(2) == 0 {
					// the shorthand written in back quotes is the column of that name, never the binding
					c.X = QName(c.X.Parts[0].Name)
				}
			} else {
				c.X = Name("ia")
			}
			c.Pos = "project-name"
		}
		if c.Pos == "join-on" || c.Pos == "join-on-nested" {
			bn := map[string]bool{}
			for k := range ty {
				bn[k] = true
			}
			c.X = exprpos.Joinify(c.X, bn, rng)
			if c.X.K == "name" && len(c.X.Parts) == 1 {
				continue // a bare join key that is also a binding name is not judged
			}
		}
		w.Do(key(c), func(r *mon.R) { Check(c, r) })
	}
	// a bound name that is the whole expression, under 0, 1 and 2 pairs of
	// parentheses, at every position, bound by a let and by a parameter
	for pi, pos := range positions {
		for depth := 0; depth <= 2; depth++ {
			for viaParam := 0; viaParam < 2; viaParam++ {
				name, v, ptext := "same", Bin("==", Num("1"), Num("1")), "{b:Bool}"
				if pos == "take" || pos == "top" {
					name, v, ptext = "lim", Num("3"), "$1"
				}
				x := Name(name)
				for k := 0; k < depth; k++ {
					x = Paren(x)
				}
				if depth == 0 && (pos == "join-on" || pos == "join-on-nested") {
					continue // a bare join key that is also a binding name is not judged
				}
				c := &Case{Params: map[string]string{}, X: x, Pos: pos, Seed: int64(pi*10 + depth)}
				if viaParam == 1 {
					c.Params[name] = ptext
				} else {
					c.Lets = []LetDef{{name, v}}
				}
				w.Do(fmt.Sprint("whole|", pi, "|", depth, "|", viaParam), func(r *mon.R) { Check(c, r) })
			}
		}
	}
	// every shape of let value (signed, sum, comparison, call, reference to an
	// earlier signed let) in 0, 1 and 2 pairs of parentheses under every kind of
	// use (bare, signed, indexed, operand on either side, argument)
	{
		n := func() *E { return Name("n") }
		vals := []*E{Num("5"), Un("-", Num("1")), Un("+", Num("2")), Un("-", Un("-", Num("4"))), Bin("-", Num("1"), Num("5")), Bin("==", Num("1"), Num("1")),
			Call("strcat", StrLit("a", false), StrLit("b", true)), Un("-", Name("n0")), Name("n0"), Idx(Call("fa", Num("1")), Num("0")), In(Num("1"), Num("1"), Num("2")), StrLit("q", false)}
		uses := []*E{n(), Un("-", n()), Un("+", n()), Un("-", Un("-", n())), Idx(n(), Num("1")), Un("-", Idx(n(), Num("1"))), Bin("-", Num("1"), n()), Bin("-", Num("1"), Un("-", n())),
			Bin("-", n(), n()), Bin("*", Un("-", n()), Un("-", n())), Bin("==", n(), Un("-", n())), Call("not", Bin(">", Un("-", n()), Num("0"))), Call("fi", Un("-", n())), In(Un("-", n()), n(), Num("1")),
			Idx(Name("ma"), Un("-", n())), Call("iff", Bin("<", n(), Num("0")), Un("-", n()), n()), Bin("=~", n(), n()), Call("strcat", n(), n())}
		for vi, v := range vals {
			for ui, u := range uses {
				for lp := 1; lp <= 3; lp++ {
					for _, pos := range []string{"extend", "sort"} {
						if pos == "sort" && (vi+ui)%3 != 0 {
							continue
						}
						p := pos
						if p == "sort" {
							p = "top"
						}
						c := &Case{Params: map[string]string{}, Lets: []LetDef{{"n0", Un("-", Num("3"))}, {"n", v}}, X: u, Pos: p, Seed: int64(vi*100 + ui), LetParens: lp}
						w.Do(fmt.Sprint("shape|", vi, "|", ui, "|", lp, "|", p), func(r *mon.R) { Check(c, r) })
					}
				}
			}
		}
	}
	// a name that is both a binding and a column: written bare it is the binding,
	// written in back quotes it is the column — in chains of 2..5 alike
	// comparisons joined by or / and, with every pattern of quoting
	for k := 2; k <= 5; k++ {
		for mask := 0; mask < 1<<k; mask++ {
			for oi, op := range []string{"or", "and"} {
				var e *E
				for i := 0; i < k; i++ {
					leaf := Name("ia")
					if mask>>i&1 == 1 {
						leaf = QName("ia")
					}
					link := Bin("==", leaf, Num(fmt.Sprint(i+1)))
					if e == nil {
						e = link
					} else {
						e = Bin(op, e, link)
					}
				}
				for pi, pos := range []string{"where", "extend"} {
					c1 := &Case{Params: map[string]string{}, Lets: []LetDef{{"ia", Num("3")}}, X: e, Pos: pos, Seed: int64(mask), LetParens: 1}
					w.Do(fmt.Sprint("chain|let|", k, "|", mask, "|", oi, "|", pi), func(r *mon.R) { Check(c1, r) })
					c2 := &Case{Params: map[string]string{"ia": "$1"}, X: e, Pos: pos, Seed: int64(mask), LetParens: 1}
					w.Do(fmt.Sprint("chain|param|", k, "|", mask, "|", oi, "|", pi), func(r *mon.R) { Check(c2, r) })
				}
			}
		}
	}
	// 2..40 lets over four names, so that most of them redefine an earlier one
	// (and some a parameter): the query sees the last definition of each
	for n := 2; n <= 40; n++ {
		for variant := 0; variant < 2; variant++ {
			c := &Case{Params: map[string]string{}, Seed: int64(n), LetParens: 1, Pos: "where"}
			if variant == 1 {
				c.Params = map[string]string{"w0": "$1", "w2": "{n:Int64}"}
				c.Pos = "extend"
			}
			for i := 0; i < n; i++ {
				name := fmt.Sprintf("w%d", (i*3+variant)%4)
				var x *E = Num(fmt.Sprint(100 + i))
				if i%5 == 4 {
					x = Bin("+", Name(fmt.Sprintf("w%d", (i*3+variant+1)%4)), Num("1")) // from another binding's current value
					if i < 4 {
						x = Num(fmt.Sprint(200 + i))
					}
				}
				c.Lets = append(c.Lets, LetDef{name, x})
			}
			c.X = In(Name("ia"), Name("w0"), Name("w1"), Name("w2"), Name("w3"))
			if variant == 1 {
				c.X = Bin("+", Bin("+", Name("w0"), Name("w1")), Bin("*", Name("w2"), Name("w3")))
			}
			cc := c
			w.Do(fmt.Sprint("shadow|", n, "|", variant), func(r *mon.R) { Check(cc, r) })
		}
	}
	// a binding redefined from its own old value behind 0..30 lets that nothing
	// uses (the old value is needed although no statement in between reads it);
	// the first definition is a let or a parameter
	for k := 0; k <= 30; k++ {
		for variant := 0; variant < 3; variant++ {
			c := &Case{Params: map[string]string{}, Seed: int64(k), LetParens: 1, Pos: []string{"where", "take", "extend"}[variant]}
			if variant == 1 {
				c.Params["lim"] = "$1"
			} else {
				c.Lets = append(c.Lets, LetDef{"lim", Num("5")})
			}
			for i := 0; i < k; i++ {
				var x *E = Num(fmt.Sprint(300 + i))
				if i%4 == 3 {
					x = Bin("*", Name(fmt.Sprintf("u%d", i-1)), Num("2"))
				}
				c.Lets = append(c.Lets, LetDef{fmt.Sprintf("u%d", i), x})
			}
			c.Lets = append(c.Lets, LetDef{"lim", Bin("+", Name("lim"), Num("2"))})
			if variant == 2 {
				c.Lets = append(c.Lets, LetDef{"lim", Bin("*", Name("lim"), Name("lim"))})
			}
			switch variant {
			case 0:
				c.X = Bin(">", Name("ia"), Name("lim"))
			case 1:
				c.X = Name("lim")
			default:
				c.X = Bin("-", Name("lim"), Name("ia"))
			}
			cc := c
			w.Do(fmt.Sprint("selfredef|", k, "|", variant), func(r *mon.R) { Check(cc, r) })
		}
	}
	// binding names of every length up to a thousand characters
	for _, L := range []int{1, 2, 7, 8, 9, 15, 16, 17, 31, 32, 33, 63, 64, 65, 127, 128, 129, 255, 256, 257, 1000} {
		long := "n" + strings.Repeat("x", L-1)
		for variant := 0; variant < 2; variant++ {
			c := &Case{Params: map[string]string{}, Seed: int64(L), LetParens: 1, Pos: "where", X: Bin("==", Name("ia"), Name(long))}
			if variant == 0 {
				c.Lets = []LetDef{{long, Num("3")}, {"other", Bin("+", Name(long), Num("1"))}}
				c.X = Bin("==", Name("ia"), Bin("+", Name(long), Name("other")))
			} else {
				c.Params = map[string]string{long: "$1"}
			}
			cc := c
			w.Do(fmt.Sprint("longname|", L, "|", variant), func(r *mon.R) { Check(cc, r) })
		}
	}
	// histories: the same let value text compiled with different earlier bindings, then with none
	for ti, tmpl := range []func(a *E) *E{
		func(a *E) *E { return Idx(StrLit("abc", false), a) },
		func(a *E) *E { return Bin("+", a, Num("1")) },
		func(a *E) *E { return Call("strcat", StrLit("x", true), Call("fs", a)) },
		func(a *E) *E { return Un("-", a) },
		func(a *E) *E { return Call("iff", Bin(">", a, Num("1")), Num("10"), Num("20")) },
		func(a *E) *E { return Idx(Call("fa", Num("7")), a) },
		func(a *E) *E { return a },
	} {
		for _, pos := range []string{"where", "extend", "take"} {
			ti, tmpl, pos := ti, tmpl, pos
			w.Do(fmt.Sprint("hist|", ti, "|", pos), func(r *mon.R) {
				for _, av := range []string{"1", "2", "3"} {
					x := Bin("==", Name("ia"), Name("b"))
					p := pos
					if pos == "extend" {
						x = Name("b")
					}
					if pos == "take" {
						x, p = Name("a"), "take"
					}
					c := &Case{Params: map[string]string{}, Lets: []LetDef{{"a", Num(av)}, {"b", tmpl(Name("a"))}}, X: x, Pos: p, Seed: int64(ti)}
					Check(c, r)
					if r.Violated() {
						return
					}
				}
				// the same text once more, now without the binding it needs
				src := "let b = " + PrintExpr(Parenthesize(tmpl(Name("a")), nil)) + "; T | where ia == b"
				sql, err, o := mon.Compile(src, map[string]string{})
				if o.Anomalous() {
					r.Inconclusive("foreign_compile_anomaly")
					return
				}
				if err == nil {
					r.Violation("", "Compile(%q) succeeds with %q although its let value refers to a, which is not bound in this program (it was in earlier calls)", src, sql)
				}
			})
		}
	}
	// the name also stands as an alias, quoted, qualified or as a function name
	// in an operator before (and between) its uses: the uses still denote the
	// value, the other occurrences stay names
	{
		names := []string{"extend %a = a + 1", "project %a = a, b, k", "summarize %a = count() by k", "summarize c = count() by %a = k", "as %a", "where `%a` > 0", "extend z = `%a`",
			"join (U | project %a = k, k) on k", "render pie with (%a = 1)", "where %a.x == 1", "where x.%a == 1", "where %a(1) == 2", "sort by `%a`", "extend %a = %s", "project %a = %s + 1, b",
			"join (%a) on k", "extend `%a` = 1 | extend y = `%a`"}
		uses := []string{"where b > %s", "take %s", "extend z = %s + 1", "project z = %s, b", "top %s by b", "where f(%s) == 1", "summarize s = sum(%s) by k", "where b in (%s, 1)", "where -%s < 0",
			"join (U) on $left.a == %s", "extend y = %s | where y == %s",
			// the same comparison with the bound name and with the column of that name, side by side
			"extend z = f(%s - 1, %s) | where g(%s + 1) == h(%s)",
			"where ts > datetime(2024-%s) | extend d = date(1999 - %s), e = ago(%s-1)",
			"where b > %s and b > `%a`", "where b > `%a` and b > %s", "where b == %s or b == `%a` or b == %s", "extend p = %s, q = `%a`, r = %s"}
		for ni, a := range names {
			for ui, u := range uses {
				for _, name := range []string{"n", "lim", "distinct", "contains"} {
					for _, viaLet := range []bool{false, true} {
						for shape, q := range []string{"T | " + a + " | " + u, "T | " + u + " | " + a + " | " + u} {
							if strings.HasPrefix(a, "render") && shape == 1 {
								continue
							}
							c := &Case{ByHand: &ByHand{Query: q, Name: name, ViaLet: viaLet}}
							w.Do(fmt.Sprint("byhand|", ni, "|", ui, "|", name, "|", viaLet, "|", shape), func(r *mon.R) { Check(c, r) })
						}
					}
				}
			}
		}
	}
	// parameters are inserted verbatim: whatever the text (empty, blank, several
	// tokens, quotes), the output is the output for a marker with the marker
	// replaced by that text
	for _, q := range []string{"T | where x == %s", "T | extend y = %s", "T | take %s", "T | where %s", "let n = %s; T | take n | where a == n", "T | project %s", "T | where a in (%s, 1) and -%s < 0",
		"T | join (U) on $left.a == %s", "T | summarize count() by b = %s", "T | sort by %s", "T | where f(%s)[%s] == %s"} {
		for _, name := range []string{"p", "null", "true", "ia", "$p", "count"} {
			for _, v := range []string{"", " ", "  ", "$1", "{p:String}", "a b", "NULL", "0", "''", "'", "\"", "--", "/*", ")", "(", ";", "p", name, "\x00", "é", "\xff", strings.Repeat("x", 5000)} {
				c := &Case{Verbatim: &Verbatim{Query: strings.ReplaceAll(q, "%s", name), Name: name, Value: mon.Str(v)}}
				w.Do("verbatim|"+c.Verbatim.Query+"|"+v, func(r *mon.R) { Check(c, r) })
			}
		}
	}
	// non-substitution positions
	queries := []string{
		"T | where `%s` == 1", "T | where %s.a == 1", "T | where a.%s == 1", "T | where %s(1) == 2", "T | where %s(a) == 'x' | extend r = %s(a, 1, 0) | summarize %s(a == 1) by k", "T | where %s() > 0", "%s | count", "%s", "%s;", "%s | as r", "let other1 = 1; %s // c\n", "T | project %s = a", "T | extend %s = 1",
		"T | summarize %s = count() by k", "T | summarize c = count() by %s = k", "T | as %s | count", "T | render %s", "T | render pie with (%s = 1)", "T | join (%s) on k",
		"T | join kind=inner (U) on $left.%s == $right.%s", "T | where f(`%s`) and a.b.%s", "let %s2 = 1; T | where %s2 == 1",
	}
	for _, q := range queries {
		for _, name := range []string{"x", "ia", "T", "count", "true", "U", "pie",
			// a binding named like a built-in function does not change what a call of that function is
			"tolower", "toupper", "not", "isnull", "isnotnull", "iff", "iif", "strcat", "now", "countif"} {
			c := &Case{NoSubst: &NoSubst{Query: strings.ReplaceAll(q, "%s", name), Name: name}}
			w.Do("nosubst|"+c.NoSubst.Query, func(r *mon.R) { Check(c, r) })
		}
	}
}

func key(c *Case) string {
	var ps []string
	for k, v := range c.Params {
		ps = append(ps, k+"="+v)
	}
	sort.Strings(ps)
	s := strings.Join(ps, ",") + "|"
	for _, l := range c.Lets {
		s += l.Name + "=" + Canon(l.X) + ";"
	}
	return s + c.Pos + "|" + Canon(c.X)
}

func program(c *Case, lets []LetDef, x *E, after []LetDef) *Program {
	prog := exprpos.Build(c.Pos, x)
	q := prog.Stmts[len(prog.Stmts)-1]
	out := &Program{}
	for _, l := range lets {
		n := l.Name
		// the value is written with the parentheses the grammar needs plus
		// redundant ones chosen by the value itself (stable across calls)
		prng := gen.RNG(c.Seed, "letparens|"+Canon(l.X))
		lx := Parenthesize(l.X, func() bool { return prng.Intn(3) == 0 })
		if c.LetParens > 0 {
			lx = Parenthesize(l.X, nil)
			for k := 1; k < c.LetParens; k++ {
				lx = Paren(lx)
			}
		}
		out.Stmts = append(out.Stmts, &Stmt{LetName: &Ident{Name: n}, LetX: lx})
	}
	out.Stmts = append(out.Stmts, q)
	for _, l := range after {
		n := l.Name
		out.Stmts = append(out.Stmts, &Stmt{LetName: &Ident{Name: n}, LetX: Parenthesize(l.X, nil)})
	}
	return out
}

func usesBound(e *E, bound map[string]bool) bool {
	if e == nil {
		return false
	}
	if e.K == "name" && len(e.Parts) == 1 && !e.Parts[0].Quoted && bound[e.Parts[0].Name] {
		return true
	}
	for _, k := range e.Kids {
		if usesBound(k, bound) {
			return true
		}
	}
	return false
}

// Check decides one case.
func Check(c *Case, r *mon.R) {
	r.Case = c
	if c.NoSubst != nil {
		checkNoSubst(c.NoSubst, r)
		return
	}
	if c.ByHand != nil {
		checkByHand(c.ByHand, r)
		return
	}
	if c.Verbatim != nil {
		checkVerbatim(c.Verbatim, r)
		return
	}
	rng := gen.RNG(c.Seed, "c06case")
	// scoping model
	scope := map[string]val.V{}
	for name, snip := range c.Params {
		x, err := sqlmini.ParseExpr(snip)
		if err != nil {
			r.Inconclusive("bad_snippet")
			return
		}
		scope[name] = sqlmini.Eval(x, &sqlmini.Ctx{Row: sqlmini.NewEnv(), Params: placeholderVals})
	}
	for _, l := range c.Lets {
		cur := map[string]val.V{}
		for k, v := range scope {
			cur[k] = v
		}
		scope[l.Name] = Eval(l.X, &EvalCtx{Row: Row{}, Bind: func(n string) (val.V, bool) { v, ok := cur[n]; return v, ok }})
	}
	boundNames := map[string]bool{}
	for k := range scope {
		boundNames[k] = true
	}
	bindFn := func(n string) (val.V, bool) { v, ok := scope[n]; return v, ok }

	sx := Parenthesize(c.X, func() bool { return rng.Intn(8) == 0 })
	prog := program(c, c.Lets, sx, nil)
	src := Print(prog, Layout{Mode: 0}).Src
	params := c.Params
	if params == nil {
		params = map[string]string{}
	}
	sql, err, o := mon.Compile(src, params)
	if o.Anomalous() {
		r.Inconclusive("foreign_compile_anomaly")
		return
	}
	if o.Mutated != "" {
		r.Violation("", "Compile(%q) changed the parameter map it was given (%s): the next call with that map sees a binding nobody passed", src, o.Mutated)
		return
	}
	if err != nil {
		r.Inconclusive("foreign_compile_error")
		r.SetAdd("foreign_compile_errors", clip(err.Error(), 120))
		return
	}
	st, perr := sqlmini.Parse(sql)
	if perr != nil {
		r.Violation("", "Compile(%q, %v) = %q is not valid SQL: %v", src, params, sql, perr)
		return
	}
	sx2, _ := exprpos.Locate(c.Pos, st)
	if sx2 == nil {
		r.Inconclusive("foreign_shape")
		return
	}
	cols := gen.ColsOf(c.X, boundNames)
	rows := gen.Rows(cols, 300, rng)
	for _, row := range rows {
		want := Eval(c.X, &EvalCtx{Row: row, Bind: bindFn})
		got := sqlmini.Eval(sx2, &sqlmini.Ctx{Row: exprpos.ToEnv(row), Params: placeholderVals})
		same := val.Same(got, want)
		if c.Pos == "join-on" || c.Pos == "join-on-nested" {
			same = exprpos.IsTrue(got) == exprpos.IsTrue(want)
		}
		if !same {
			r.Violation("", "bindings are not substituted by the scoping rules at %s position:\n  program     %s\n  parameters  %v\n  scope       %v\n  PQL reading %s = %v\n  SQL emitted %s\n  SQL reading %s = %v\n  on row %s",
				c.Pos, src, params, scopeString(scope), Canon(c.X), want, sql, sx2.String(), got, exprpos.RowString(row))
			return
		}
	}
	// metamorphic: unused bindings and lets after the query change nothing
	extraLets := append([]LetDef{}, c.Lets...)
	at := 0
	if len(extraLets) > 0 {
		at = rng.Intn(len(extraLets) + 1)
	}
	extraLets = append(extraLets[:at:at], append([]LetDef{{"zz9", Bin("+", Num("1"), Num("2"))}}, extraLets[at:]...)...)
	after := []LetDef{{"zz7", Name("no_such_binding")}, {"zz6", Name("a", "b")}}
	{
		// lets after the query that rebind names the query uses, with plain and
		// with signed values (sorted, so that the choice does not depend on map order)
		var ks []string
		for k := range scope {
			ks = append(ks, k)
		}
		sort.Strings(ks)
		for i, k := range ks {
			if i >= 2 {
				break
			}
			v := Num("99")
			if (i+len(ks))%2 == 0 {
				v = Un("-", Num("98"))
			}
			after = append(after, LetDef{k, v})
		}
		for _, col := range cols {
			if !strings.Contains(col, "\x1f") && plainName(col) {
				after = append(after, LetDef{col, Un("-", Num("97"))})
				break
			}
		}
	}
	p2 := map[string]string{"zz8": "$9"}
	// the number of unused parameters varies (small maps and large ones may be handled differently)
	sizes := []int{0, 0, 1, 6, 7, 8, 9, 15, 16, 17, 31, 32, 33, 39, 40, 41, 63, 64, 65, 127, 128, 129, 300}
	for i, n := 0, sizes[rng.Intn(len(sizes))]; i < n; i++ {
		p2[fmt.Sprintf("zu%d", i)] = fmt.Sprintf("$%d", 100+i)
	}
	for k, v := range params {
		p2[k] = v
	}
	src2 := Print(program(c, extraLets, sx, after), Layout{Mode: 0}).Src
	sql2, err2, o2 := mon.Compile(src2, p2)
	if o2.Anomalous() {
		r.Inconclusive("foreign_compile_anomaly")
		return
	}
	if o2.Mutated != "" {
		r.Violation("", "Compile(%q) changed the parameter map it was given (%d entries: %s): the next call with that map sees a binding nobody passed", src2, len(p2), o2.Mutated)
		return
	}
	if err2 != nil || sql2 != sql {
		r.Violation("", "an unused let, an unused parameter and lets after the query change the result:\n  %s  (parameters %v)\n  => %s\n  %s  (parameters %v)\n  => %s %v", src, params, sql, src2, p2, sql2, err2)
		return
	}
	r.Count("rows_evaluated", int64(len(rows)))
	r.SetAdd("positions", c.Pos)
	if usesBound(c.X, boundNames) && (CountOps(c.X) >= 2 || c.Pos == "project-name") {
		r.Nontrivial()
		if len(src) < 120 {
			r.Sample(map[string]any{"pql": src, "params": params, "sql": sql})
		}
		r.Count("programs_using_a_binding", 1)
	}
}

func checkNoSubst(n *NoSubst, r *mon.R) {
	base, err0, o0 := mon.Compile(n.Query, map[string]string{})
	withLet, err1, o1 := mon.Compile("let "+n.Name+" = 12345; "+n.Query, map[string]string{})
	withParam, err2, o2 := mon.Compile(n.Query, map[string]string{n.Name: "$77"})
	if o0.Anomalous() || o1.Anomalous() || o2.Anomalous() {
		r.Inconclusive("foreign_compile_anomaly")
		return
	}
	if err0 != nil {
		r.Inconclusive("foreign_compile_error")
		return
	}
	if err1 != nil || withLet != base {
		r.Violation("", "a let binding %q changes a position that must not be substituted: %q compiles to\n  %s\n with the let:\n  %s %v", n.Name, n.Query, base, withLet, err1)
		return
	}
	if err2 != nil || withParam != base {
		r.Violation("", "a parameter %q changes a position that must not be substituted: %q compiles to\n  %s\n with the parameter:\n  %s %v", n.Name, n.Query, base, withParam, err2)
		return
	}
	r.Nontrivial()
	r.Count("non_substitution_checks", 1)
}

const handValue = "987654321"

func checkByHand(b *ByHand, r *mon.R) {
	bound := strings.ReplaceAll(strings.ReplaceAll(b.Query, "%s", b.Name), "%a", b.Name)
	hand := strings.ReplaceAll(strings.ReplaceAll(b.Query, "%s", handValue), "%a", b.Name)
	params := map[string]string{}
	if b.ViaLet {
		bound = "let " + b.Name + " = " + handValue + "; " + bound
	} else {
		params[b.Name] = handValue
	}
	want, err0, o0 := mon.Compile(hand, map[string]string{})
	got, err1, o1 := mon.Compile(bound, params)
	if o0.Anomalous() || o1.Anomalous() {
		r.Inconclusive("foreign_compile_anomaly")
		return
	}
	if err0 != nil {
		r.Inconclusive("foreign_compile_error")
		return
	}
	if err1 != nil || got != want {
		r.Violation("", "a binding does not denote its value at every use, or is substituted where the name is not a use: Compile(%q) with %s bound to %s gives\n  %s %v\n expected (the value written at the use sites by hand, no binding: %q)\n  %s", bound, b.Name, handValue, clip(got, 500), err1, hand, clip(want, 500))
		return
	}
	r.Nontrivial()
	r.Count("by_hand_checks", 1)
}

const marker = "\x01zzMARKERzz\x01"

func checkVerbatim(v *Verbatim, r *mon.R) {
	withMarker, err0, o0 := mon.Compile(v.Query, map[string]string{v.Name: marker})
	got, err1, o1 := mon.Compile(v.Query, map[string]string{v.Name: string(v.Value)})
	if o0.Anomalous() || o1.Anomalous() {
		r.Inconclusive("foreign_compile_anomaly")
		return
	}
	if err0 != nil {
		r.Inconclusive("foreign_compile_error")
		return
	}
	if !strings.Contains(withMarker, marker) {
		r.Inconclusive("marker_not_in_output")
		return
	}
	want := strings.ReplaceAll(withMarker, marker, string(v.Value))
	if err1 != nil || got != want {
		r.Violation("", "the parameter %s is not inserted verbatim: Compile(%q) with %s=%q gives\n  %s %v\n expected (the output for a marker value, with the marker replaced)\n  %s", v.Name, v.Query, v.Name, clip(string(v.Value), 80), clip(got, 400), err1, clip(want, 400))
		return
	}
	r.Nontrivial()
	r.Count("verbatim_checks", 1)
}

func plainName(s string) bool {
	if s == "" || s == "true" || s == "false" || s == "null" {
		return false
	}
	for i := 0; i < len(s); i++ {
		c := s[i]
		if !(c == '_' || c >= 'a' && c <= 'z' || c >= 'A' && c <= 'Z' || i > 0 && c >= '0' && c <= '9') {
			return false
		}
	}
	return true
}

func scopeString(s map[string]val.V) string {
	var p []string
	for k, v := range s {
		p = append(p, k+"="+v.String())
	}
	sort.Strings(p)
	return "{" + strings.Join(p, ", ") + "}"
}

func clip(s string, n int) string {
	if len(s) > n {
		return s[:n]
	}
	return s
}

var _ = fmt.Sprint
