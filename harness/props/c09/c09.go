// Package c09: the lexer partitions the source into the documented tokens.
package c09

import (
	"encoding/json"
	"fmt"
	"math"
	"math/big"
	"strings"

	"github.com/runreveal/pql/parser"

	"verif/harness/gen"
	"verif/harness/mon"
	"verif/harness/pqlref"
)

func init() {
	mon.Register(&mon.Prop{
		ID:       "C09",
		Generate: generate,
		Replay: func(raw json.RawMessage, r *mon.R) {
			var ms mon.Str
			json.Unmarshal(raw, &ms)
			s := string(ms)
			Check(s, r)
		},
		Rule: "inputs: every string of <=4 (quick) / <=5 (thorough) symbols over two 16-symbol alphabets chosen to reach every scanner state, " +
			"seeded random byte strings, token-dense soups and every prefix of corpus programs; oracle: independent longest-match reference tokenizer " +
			"(kinds, spans, values; numbers as exact rationals), partition/gap invariants, re-scan of every token's own text, numeric accessors vs math/big; " +
			"non-trivial = distinct input yielding at least two tokens",
		FloorQuick: 50_000, FloorThorough: 500_000,
		Assumptions: []string{
			"error token messages are not compared, only kind and extent",
			"an error token for 0x followed by a non-hex byte covers two bytes; an unterminated string or quoted identifier extends up to, not including, the newline (pinned by the repository's own lexer tests)",
			"Uint64/Float64 are only compared when the value fits the type",
		},
	})
}

var alpha1 = []string{"0", "1", "9", ".", "e", "x", "+", "-", "a", "_", "$", "\"", "'", "\\", "/", "!"}
var alpha2 = []string{"`", "=", "~", "<", "\n", " ", "\xff", "é", ";", "!", "a", "0", ".", "/", "\"", "\\"}

// a third alphabet: carriage return, byte order mark, replacement character,
// runes whose low byte looks like ASCII white space, 4-byte runes
var alpha3 = []string{"\r", "\ufeff", "\ufffd", "\u2020", "\u0420", "😊", "\"", "\\", "a", ";", "/", "\n", "'", "0", "x", "\u00a0"}

// a fourth, small alphabet explored deeper: strings with escapes, line breaks and quotes
var alpha4 = []string{"\"", "\\", "t", "\n", "a", "'"}

var lexemes = gen.Lexicon

func generate(w *mon.W) {
	maxLen := w.Pick(4, 6)
	for ai, al := range [][]string{alpha1, alpha2, alpha3, alpha4} {
		ml := maxLen
		if ai == 2 && ml > 5 {
			ml = 5
		}
		if ai == 3 {
			ml = w.Pick(7, 8)
		}
		gen.EnumStrings(al, ml, func(s string) bool {
			w.Do(s, func(r *mon.R) { Check(s, r) })
			return !w.Stopped()
		})
	}
	// every Unicode code point (and every surrogate/invalid encoding of its
	// number) between two tokens: rune classification and error-token extents
	for r := rune(0); r <= 0x10FFFF; r++ {
		if w.Stopped() {
			break
		}
		enc := string(r)
		if r >= 0xD800 && r <= 0xDFFF {
			// surrogates cannot be encoded: use the raw 3-byte form
			enc = string([]byte{0xED, byte(0xA0 | (r>>6)&0x1F), byte(0x80 | r&0x3F)})
		}
		s := "a" + enc + "1"
		w.Do(s, func(r *mon.R) { Check(s, r) })
		// the same code point in every other lexical context: after a digit, a
		// radix prefix, a decimal point, an exponent marker; inside a string, a
		// quoted name and a comment; after a backslash in a string. Quick runs
		// take the first planes densely and the rest sparsely.
		if w.Quick() && r >= 0x3000 && r%97 != 0 && !(r >= 0xFF00 && r <= 0xFFFF) && !(r >= 0x1F300 && r <= 0x1F3FF) {
			continue
		}
		for _, ctx := range [][2]string{{"1", " a"}, {"0x1", " "}, {"1.", "+2"}, {"1e", "2"}, {"'x", "y' b"}, {"`x", "y` b"}, {"// c", "d\nb"}, {"'x\\", "y' b"}, {"\"\\", "\""}, {"", ""}} {
			s := ctx[0] + enc + ctx[1]
			w.Do(s, func(r *mon.R) { Check(s, r) })
		}
	}
	// long runs: every lexeme (tokens of every kind, unrecognisable pieces,
	// white space, comments) repeated around the counts a limit, a buffer or a
	// table may be sized at, tight and spaced, followed by ordinary tokens
	for _, lx := range append(append([]string{}, lexemes...), "#", "\x00", "é", "\xff", "!", "..", " ", "\n", "// c\n", "0x", "'", "`") {
		for _, n := range []int{255, 256, 257, 999, 1000, 1001, 1023, 1024, 1025, 4095, 4096, 4097, 65535, 65536, 65537} {
			if n > 5000 && (w.Quick() || len(lx) > 4) {
				continue
			}
			for _, sep := range []string{"", " "} {
				s := strings.Repeat(lx+sep, n) + " a == 1 'z'"
				w.Do(s, func(r *mon.R) { Check(s, r) })
			}
		}
		if w.Stopped() {
			return
		}
	}
	// every ordered pair of lexemes, glued, spaced and on two lines: a token is
	// scanned the same whatever was scanned before it (unterminated strings and
	// names, escapes, numbers that stop early, comments included)
	for i, a := range lexemes {
		for _, b := range lexemes {
			for _, sep := range []string{"", " ", "\n"} {
				s := a + sep + b
				w.Do(s, func(r *mon.R) { Check(s, r) })
			}
		}
		if i%16 == 0 && w.Stopped() {
			return
		}
	}
	for _, s := range gen.RepeatedTokenSources() {
		s := s
		w.Do(s, func(r *mon.R) { Check(s, r) })
	}
	// a word, an opening parenthesis and something number-like: a call is scanned
	// token by token whatever the function is called
	for _, fn := range []string{"f", "datetime", "date", "time", "timespan", "ago", "bin", "long", "dynamic", "now", "not", "case"} {
		for _, arg := range []string{"2024-01-15", "2024-01-15 10:30:00", "1700000000 + 3600", "2024", "1-2-3", "5m", "1_000", "2024 - x", "2024-x", "1d", "0x10-1", "12:30", "2024-01-15T10:30:00Z", ".5-1", "'2024-01-15'", "1,2", ""} {
			for _, tail := range []string{")", ") + 1", "", " )"} {
				s := fn + "(" + arg + tail
				w.Do(s, func(r *mon.R) { Check(s, r) })
			}
		}
	}
	// ordered triples whose middle is a punctuation mark or nothing: a token is
	// scanned the same whatever the two tokens before it were
	for i, a := range lexemes {
		for _, mid := range []string{".", ",", "(", "[", "=", "-", "|", " . ", ". "} {
			for _, b := range lexemes {
				s := a + mid + b
				w.Do(s, func(r *mon.R) { Check(s, r) })
			}
		}
		if i%16 == 0 && w.Stopped() {
			return
		}
	}
	// every integer in the neighbourhood of the widths numbers are stored in
	// (2^31, 2^32, 2^53, 2^63, 2^64, 10^19, 10^20), in decimal, padded decimal
	// and hexadecimal: the last digit matters for overflow checks
	{
		centres := []string{"2147483648", "4294967296", "9007199254740992", "9223372036854775808", "18446744073709551616", "10000000000000000000", "100000000000000000000", "1844674407370955161", "184467440737095516160"}
		for _, cs := range centres {
			c, _ := new(big.Int).SetString(cs, 10)
			for d := int64(-24); d <= 40; d++ {
				v := new(big.Int).Add(c, big.NewInt(d))
				for _, sp := range []string{v.String(), "000" + v.String(), "0x" + v.Text(16), "0X00" + strings.ToUpper(v.Text(16)), v.String() + ".0", v.String() + "e0"} {
					sp := sp
					w.Do(sp, func(r *mon.R) { Check(sp, r) })
				}
			}
		}
	}
	// decimals of 14..20 significant digits with the point at every place: the
	// accessors agree with the exact value (correct rounding of long mantissas)
	{
		drng := gen.RNG(w.Seed, "c09dec")
		for i := 0; i < w.Pick(4_000, 200_000); i++ {
			nd := 14 + drng.Intn(7)
			var sb strings.Builder
			sb.WriteByte(byte('1' + drng.Intn(9)))
			for k := 1; k < nd; k++ {
				sb.WriteByte(byte('0' + drng.Intn(10)))
			}
			d := sb.String()
			pt := drng.Intn(nd + 1)
			lit := d[:pt] + "." + d[pt:]
			switch drng.Intn(5) {
			case 0:
				lit = d
			case 1:
				lit += "e" + fmt.Sprint(drng.Intn(40)-20)
			}
			l2 := lit
			w.Do(l2, func(r *mon.R) { Check(l2, r) })
		}
	}
	// small mantissas behind 0 to 45 zeros after the point, and in front of as
	// many before it: the accessors agree with the exact value at every scale
	for _, mant := range []string{"1", "7", "25", "123", "4503599627370497", "9007199254740993", "99999999999999"} {
		for z := 0; z <= 45; z++ {
			for _, lit := range []string{"0." + strings.Repeat("0", z) + mant, "." + strings.Repeat("0", z) + mant, mant + strings.Repeat("0", z), mant + strings.Repeat("0", z) + ".0", mant + "e-" + fmt.Sprint(z), mant + "." + strings.Repeat("0", z) + "1"} {
				l3 := lit
				w.Do(l3, func(r *mon.R) { Check(l3, r) })
			}
		}
	}
	// prefixes of corpus programs: end of input in every scanner state
	for _, p := range gen.Seeds() {
		for i := 1; i <= len(p); i++ {
			s := p[:i]
			w.Do(s, func(r *mon.R) { Check(s, r) })
		}
	}
	rng := gen.RNG(w.Seed, "c09")
	nRand := w.Pick(20_000, 2_000_000)
	for i := 0; i < nRand && !w.Stopped(); i++ {
		var sb strings.Builder
		switch i % 3 {
		case 0: // raw bytes
			n := 1 + rng.Intn(60)
			for j := 0; j < n; j++ {
				sb.WriteByte(byte(rng.Intn(256)))
			}
		case 1: // token soup without separators
			n := 1 + rng.Intn(12)
			for j := 0; j < n; j++ {
				sb.WriteString(lexemes[rng.Intn(len(lexemes))])
			}
		default: // token soup with random separators
			n := 1 + rng.Intn(30)
			for j := 0; j < n; j++ {
				sb.WriteString(lexemes[rng.Intn(len(lexemes))])
				if rng.Intn(2) == 0 {
					sb.WriteString([]string{" ", "\n", "\t", " // x\n", ""}[rng.Intn(5)])
				}
			}
		}
		s := sb.String()
		w.Do(s, func(r *mon.R) { Check(s, r) })
	}
}

func knownKey(s string) string { return "" }

// the result of the previous Scan and a private copy of it: results must not
// be aliased to buffers that a later call reuses
var prevToks, prevCopy []parser.Token
var prevSrc string

// Check decides one input.
func Check(s string, r *mon.R) {
	r.Case = mon.Str(s)
	got, o := mon.Scan(s)
	if prevToks != nil {
		for i := range prevCopy {
			if i >= len(prevToks) || prevToks[i] != prevCopy[i] {
				r.Violation("", "the tokens returned by Scan(%q) changed when Scan(%q) was called afterwards: token %d was %v, is now %v", prevSrc, s, i, prevCopy[i], prevToks[i])
				return
			}
		}
	}
	prevToks, prevSrc = got, s
	prevCopy = append(prevCopy[:0], got...)
	if o.Anomalous() {
		r.Inconclusive("foreign_scan_" + map[bool]string{true: "hang", false: "panic"}[o.Hung])
		return
	}
	want := pqlref.Tokens(s)
	if msg := Compare(s, got, want); msg != "" {
		r.Violation(knownKey(s), "Scan(%q): %s", s, msg)
		return
	}
	// partition invariants on the real tokens, independent of the reference
	prev := 0
	for i, t := range got {
		if !(t.Span.Start >= prev && t.Span.End >= t.Span.Start && t.Span.End <= len(s)) {
			r.Violation("", "Scan(%q): token %d span %v overlaps its predecessor or leaves the source", s, i, t.Span)
			return
		}
		if t.Span.End == t.Span.Start {
			r.Violation("", "Scan(%q): token %d is empty at %v", s, i, t.Span)
			return
		}
		if gap := s[prev:t.Span.Start]; gap != "" && len(pqlref.Tokens(gap)) != 0 {
			r.Violation("", "Scan(%q): text %q between tokens is not white space or a comment", s, gap)
			return
		}
		prev = t.Span.End
	}
	if gap := s[prev:]; gap != "" && len(pqlref.Tokens(gap)) != 0 {
		r.Violation("", "Scan(%q): trailing text %q after the last token is not white space or a comment", s, gap)
		return
	}
	// every token's own text scans to that token
	for i, t := range got {
		text := s[t.Span.Start:t.Span.End]
		again, o2 := mon.Scan(text)
		if o2.Anomalous() {
			r.Inconclusive("foreign_scan_anomaly")
			return
		}
		if len(again) != 1 || again[0].Kind != t.Kind || again[0].Span.Start != 0 || again[0].Span.End != len(text) ||
			(t.Kind != parser.TokenError && again[0].Value != t.Value) {
			r.Violation("", "Scan(%q): token %d %v %q re-scanned alone as %q gives %v", s, i, t.Kind, t.Value, text, again)
			return
		}
		if t.Kind == parser.TokenNumber {
			if msg := checkAccessors(text, t, want[i].Num); msg != "" {
				r.Violation("", "Scan(%q): literal %q value %q: %s", s, text, t.Value, msg)
				return
			}
			r.Count("numeric_literals_checked", 1)
		}
		r.SetAdd("token_kinds_seen", t.Kind.String())
	}
	r.Count("tokens_compared", int64(len(got)))
	if len(got) >= 2 {
		r.Nontrivial()
		if len(got) >= 3 && len(s) < 40 {
			r.Sample(map[string]any{"input": s, "tokens": fmt.Sprint(got)})
		}
	}
}

// Compare reports the first difference between real and reference tokens.
func Compare(s string, got []parser.Token, want []pqlref.RTok) string {
	n := len(got)
	if len(want) < n {
		n = len(want)
	}
	for i := 0; i < n; i++ {
		g, w := got[i], want[i]
		if g.Kind != w.Kind || g.Span.Start != w.Start || g.Span.End != w.End {
			return fmt.Sprintf("token %d is %v%v %q, the language defines %v[%d,%d) %q", i, g.Kind, g.Span, g.Value, w.Kind, w.Start, w.End, w.Val)
		}
		switch g.Kind {
		case parser.TokenNumber:
			v, ok := pqlref.NumberValue(g.Value)
			if !ok || !v.Equal(w.Num) {
				return fmt.Sprintf("token %d: number %q normalised to %q, which is not a decimal spelling of the same value (%v)", i, s[w.Start:w.End], g.Value, w.Num)
			}
			// normalised: no superfluous leading zeros, a digit before a decimal point
			if len(g.Value) > 1 && g.Value[0] == '0' && g.Value[1] >= '0' && g.Value[1] <= '9' || g.Value[0] == '.' {
				return fmt.Sprintf("token %d: number %q normalised to %q, which keeps leading zeros", i, s[w.Start:w.End], g.Value)
			}
		case parser.TokenError:
		default:
			if g.Value != w.Val {
				return fmt.Sprintf("token %d (%v): value %q, the language defines %q", i, g.Kind, g.Value, w.Val)
			}
		}
	}
	if len(got) != len(want) {
		return fmt.Sprintf("%d tokens, the language defines %d (first %d agree)", len(got), len(want), n)
	}
	return ""
}

var two64 = new(big.Rat).SetInt(new(big.Int).Lsh(big.NewInt(1), 64))

func checkAccessors(lexeme string, t parser.Token, num *pqlref.Number) string {
	lit := &parser.BasicLit{Kind: t.Kind, Value: t.Value, ValueSpan: t.Span}
	isHex := len(lexeme) > 1 && (lexeme[1] == 'x' || lexeme[1] == 'X')
	wantFloat := !isHex && strings.ContainsAny(lexeme, ".eE")
	var isF, isI bool
	var u uint64
	var f float64
	if o := mon.Guarded(func() { isF, isI, u, f = lit.IsFloat(), lit.IsInteger(), lit.Uint64(), lit.Float64() }); o.Anomalous() {
		return "accessor " + o.String()
	}
	if isF != wantFloat || isI != !wantFloat {
		return fmt.Sprintf("IsFloat=%v IsInteger=%v but the spelling is %s", isF, isI, map[bool]string{true: "a float", false: "an integer"}[wantFloat])
	}
	if num == nil {
		return ""
	}
	val, ok := num.Rat()
	if !ok {
		return ""
	}
	// Float64 when representable
	wf, _ := val.Float64()
	if !math.IsInf(wf, 0) && (wf != 0 || val.Sign() == 0) && (wf == 0 || math.Abs(wf) >= 2.3e-308) {
		if f != wf {
			return fmt.Sprintf("Float64()=%v, the spelling denotes %v", f, wf)
		}
	}
	if !wantFloat {
		if val.Cmp(two64) < 0 {
			if !val.IsInt() || u != val.Num().Uint64() {
				return fmt.Sprintf("Uint64()=%d, the spelling denotes %v", u, val)
			}
		}
	} else if val.Cmp(new(big.Rat).SetInt64(1<<62)) < 0 {
		// truncation of a float literal that fits
		q := new(big.Int).Quo(val.Num(), val.Denom())
		// the value goes through float64: either truncation is the literal's integer part
		if wf < 1e15 && u != q.Uint64() && u != uint64(wf) {
			return fmt.Sprintf("Uint64()=%d, the spelling denotes %v (truncated %v)", u, val, q)
		}
	}
	return ""
}
