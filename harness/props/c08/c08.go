// Package c08: the parser accepts only what its tree represents.
package c08

import (
	"encoding/json"
	"fmt"
	"strings"

	"github.com/runreveal/pql/parser"

	"verif/harness/gen"
	"verif/harness/mon"
	. "verif/harness/pqlref"
)

func init() {
	mon.Register(&mon.Prop{
		ID:       "C08",
		Generate: generate,
		Replay: func(raw json.RawMessage, r *mon.R) {
			var ms mon.Str
			json.Unmarshal(raw, &ms)
			s := string(ms)
			mon.StepBudget = 500_000_000
			Check(s, r)
		},
		Rule: "inputs: for each program of a generated corpus every single-token corruption (delete each token, insert each of ~110 vocabulary tokens at each position, duplicate, transpose neighbours, truncate at each position), " +
			"characters glued to the start and end of every token (look-alikes of letters, digits, quotes and separators, line breaks, NUL) and inserted at every byte inside strings and quoted names; " +
			"seeded two- and three-fold token/byte corruptions and token soups. oracle: whenever Parse succeeds, the token sequence regenerated purely from the exported fields of the returned tree must equal Scan(source) as (kind,value), " +
			"after removing from the source side only commas directly before the ')' of a call or before summarize's by, and empty statements. non-trivial = distinct accepted source with a bracket pair or two operators; rejected corruptions are counted separately",
		FloorQuick: 50_000, FloorThorough: 1_000_000,
		Assumptions: []string{"keyword spelling (synonyms) is read back from the keyword span; all other tokens are regenerated from tree fields only"},
	})
}

func generate(w *mon.W) {
	mon.StepBudget = 500_000_000 // deep nestings legitimately need tens of millions of parser steps
	rng := gen.RNG(w.Seed, "c08")
	g := &gen.Syn{Rng: rng}
	var corpus []string
	nprog := w.Pick(80, 600)
	for i := 0; len(corpus) < nprog; i++ {
		p := gen.SynProgram(g, i)
		src := Print(p, Layout{Mode: 0}).Src
		if len(gen.Lexemes(src)) <= 40 {
			corpus = append(corpus, src)
		}
	}
	corpus = append(corpus, gen.Seeds()...)
	// calls of dialect functions with arithmetic, dates and durations as arguments
	corpus = append(corpus, "T | where ts > datetime(2024 - skew * 60) and d == date(1999 - a)", "T | where ts > datetime(2024-01-15) | extend t = ago(5 - m), u = bin(ts, 3600) | count",
		"T | extend a = case(lvl == 1, 'low', hidden == 2, 'high'), b = substring(name, 0), c = not (x) | project a, b, c")
	for _, kind := range gen.WideKinds {
		for _, n := range []int{1, 2, 3, 12, 13, 16, 17, 24, 25, 26, 33} {
			// wide constructs join the mutation corpus; the biggest are only checked as they are
			corpus = append(corpus, Print(gen.Wide(kind, n), Layout{Mode: 0}).Src)
		}
	}
	do := func(s string) { w.Do(s, func(r *mon.R) { Check(s, r) }) }
	for _, kind := range gen.WideKinds {
		for _, n := range gen.WideSizes {
			do(Print(gen.Wide(kind, n), Layout{Mode: 1}).Src)
		}
	}
	// deep nestings (the tree must still account for every token)
	for _, depth := range []int{100, 500, 1000, 1999, 2000, 2001, 2500} {
		if depth > 1000 && w.Quick() && depth != 2001 {
			continue
		}
		do("T | where " + strings.Repeat("f(", depth) + "x" + strings.Repeat(")", depth))
		do("T | where " + strings.Repeat("(", depth-1) + "g(x)" + strings.Repeat(")", depth-1))
		do("T | where " + strings.Repeat("(", depth) + "x" + strings.Repeat(")", depth))
		do("T | where " + strings.Repeat("a[", depth) + "1" + strings.Repeat("]", depth))
		do("T | where " + strings.Repeat("a in (", depth) + "1" + strings.Repeat(")", depth))
		do("T | where " + strings.Repeat("not(", depth) + "b" + strings.Repeat(")", depth) + " and f(y)")
	}
	for ci, src := range corpus {
		if w.Stopped() {
			return
		}
		do(src)
		if len(gen.Lexemes(src)) > 60 {
			continue // exhaustive single-token corruption only for programs of moderate length
		}
		parts := gen.Lexemes(src)
		join := func(p []string) string { return strings.Join(p, " ") }
		for i := range parts {
			do(join(append(append([]string{}, parts[:i]...), parts[i+1:]...)))                 // delete
			do(join(append(append(append([]string{}, parts[:i]...), parts[i]), parts[i:]...))) // duplicate
			do(join(parts[:i]))                                                                // truncate
			if i+1 < len(parts) {
				t := append([]string{}, parts...)
				t[i], t[i+1] = t[i+1], t[i]
				do(join(t)) // transpose
			}
		}
		// every word respelled as a string and as a quoted name, every string
		// and quoted name respelled bare (a keyword is a keyword only bare)
		for i, part := range parts {
			alt := func(x string) {
				t := append([]string{}, parts...)
				t[i] = x
				do(join(t))
			}
			switch c := part[0]; {
			case c == '\'' || c == '"' || c == '`':
				if len(part) > 2 {
					alt(part[1 : len(part)-1])
				}
			case c >= 'a' && c <= 'z' || c >= 'A' && c <= 'Z' || c == '_' || c == '$':
				alt("'" + part + "'")
				alt("\"" + part + "\"")
				alt("`" + part + "`")
			}
		}
		// every word respelled as a near miss of itself (an operator name that is
		// almost right is not that operator)
		for i, part := range parts {
			c := part[0]
			if !(c >= 'a' && c <= 'z' || c >= 'A' && c <= 'Z') || len(part) < 2 {
				continue
			}
			for _, alt := range []string{part + "s", part + "_", part[:len(part)-1], part[:len(part)-1] + "s", part[:len(part)-1] + "z", strings.ToUpper(part[:1]) + part[1:], part[:1] + part, part + part[len(part)-1:]} {
				t := append([]string{}, parts...)
				t[i] = alt
				do(join(t))
			}
		}
		// every token replaced by each punctuation mark, operator and keyword
		for i := range parts {
			for _, v := range []string{",", "=", "|", "by", "]", ")", "(", "[", ";", ".", "and", "==", "-", "in"} {
				if parts[i] == v {
					continue
				}
				t := append([]string{}, parts...)
				t[i] = v
				do(join(t))
			}
		}
		// characters glued to a token without a space: look-alikes of letters,
		// digits, quotes and separators (what they become when cut down to one
		// byte), raw line breaks and quote characters at the start and the end of
		// every token and, for strings and quoted names, at every byte inside
		if ci < nprog || !w.Quick() || ci%4 == 0 {
			for i, part := range parts {
				for _, g := range glue {
					t := append([]string{}, parts...)
					t[i] = part + g
					do(join(t))
					t[i] = g + part
					do(join(t))
				}
				if c := part[0]; (c == '\'' || c == '"' || c == '`') && len(part) <= 24 {
					for at := 1; at < len(part); at++ {
						for _, g := range []string{"\n", "\r", "\\\n", string(c), "\\", glue[0], glue[3]} {
							t := append([]string{}, parts...)
							t[i] = part[:at] + g + part[at:]
							do(join(t))
						}
					}
				}
			}
		}
		// cut at every byte (numbers, strings and operators end mid-token)
		for i := 1; i < len(src); i++ {
			do(src[:i])
		}
		// insertion of every vocabulary token at every position (exhaustive
		// for the generated part of the corpus; sampled for the hand corpus in quick)
		if ci < nprog || !w.Quick() {
			for i := 0; i <= len(parts); i++ {
				for _, v := range gen.Vocab {
					do(join(append(append(append([]string{}, parts[:i]...), v), parts[i:]...)))
					do(join(append(append([]string{}, parts[:i]...), v))) // the rest replaced by the token
				}
			}
		}
	}
	n := w.Pick(150_000, 3_000_000)
	for i := 0; i < n && !w.Stopped(); i++ {
		var s string
		switch i % 8 {
		case 0:
			s = gen.Soup(rng, 5+rng.Intn(60))
		case 1:
			s = gen.MutateBytes(rng, corpus[rng.Intn(len(corpus))])
		default:
			s = gen.MutateTokens(rng, corpus[rng.Intn(len(corpus))])
			if i%8 >= 5 {
				s = gen.MutateTokens(rng, s)
			}
		}
		do(s)
	}
}

// glue: see generate.
var glue = func() []string {
	var out []string
	for _, b := range []byte("nx0_$'`\\;.") {
		out = append(out, string(rune(0x100+int(b))), string(rune(0x4E00+int(b))), string(rune(0x1F300+int(b))))
	}
	return append(out, "\n", "\x85", "\xa0", "\u00a0", "\u2028", "\ufeff", "\x00", "#", "@", "?", "\\")
}()

type stok struct {
	K parser.TokenKind
	V string
	N *Number
}

func sameTok(a stok, k parser.TokenKind, v string) bool {
	if a.K != k {
		return false
	}
	if k == parser.TokenNumber {
		n, ok := NumberValue(v)
		return ok && a.N != nil && n.Equal(a.N)
	}
	return a.V == v
}

// Check decides one source.
func Check(src string, r *mon.R) {
	r.Case = mon.Str(src)
	stmts, err, o := mon.Parse(src)
	if o.Anomalous() {
		r.Inconclusive("foreign_parse_anomaly")
		return
	}
	if err != nil {
		r.Count("rejected", 1)
		return
	}
	// the source side is tokenised by the reference tokenizer (C09 keeps the
	// real Scan equal to it), so that a lexer that merges or drops tokens
	// cannot hide what the parser accepted
	rtoks := Tokens(src)
	type tokv struct {
		Kind  parser.TokenKind
		Value string
		Num   *Number
	}
	var toks []tokv
	for _, t := range rtoks {
		toks = append(toks, tokv{t.Kind, t.Val, t.Num})
	}
	printed, perr := Reprint(src, stmts)
	if perr != "" {
		r.Violation("", "Parse(%q) succeeds but its tree cannot be printed back: %s\n tree: %s", src, perr, Dump(stmts, 0, false))
		return
	}
	// source side: drop empty statements (collapse runs of semicolons, trim)
	var st []stok
	for _, t := range toks {
		if t.Kind == parser.TokenSemi {
			if len(st) == 0 || st[len(st)-1].K == parser.TokenSemi {
				continue
			}
		}
		st = append(st, stok{t.Kind, t.Value, t.Num})
	}
	for len(st) > 0 && st[len(st)-1].K == parser.TokenSemi {
		st = st[:len(st)-1]
	}
	i, j := 0, 0
	for i < len(st) || j < len(printed) {
		if i < len(st) && j < len(printed) && sameTok(st[i], printed[j].K, printed[j].V) {
			i++
			j++
			continue
		}
		// a comma directly before the ')' of a call or before summarize's by
		if i+1 < len(st) && st[i].K == parser.TokenComma && j < len(printed) && st[i+1].K == printed[j].K &&
			(printed[j].Tag == "call)" || printed[j].Tag == "summarize-by") {
			i++
			r.Count("permitted_trailing_commas", 1)
			continue
		}
		var sTok, pTok string
		if i < len(st) {
			sTok = fmt.Sprintf("%v %q", st[i].K, st[i].V)
		} else {
			sTok = "end of source"
		}
		if j < len(printed) {
			pTok = fmt.Sprintf("%v %q", printed[j].K, printed[j].V)
		} else {
			pTok = "end of tree"
		}
		kind := "is not represented in the tree"
		if i < len(st) && st[i].K == parser.TokenError {
			kind = "is a lexical error that was accepted"
		}
		r.Violation("", "Parse(%q) succeeds, but source token %d (%s) %s (the tree continues with %s)\n tree: %s", src, i, sTok, kind, pTok, Dump(stmts, 0, false))
		return
	}
	r.Count("accepted", 1)
	brackets := 0
	ops := 0
	for _, t := range st {
		switch t.K {
		case parser.TokenLParen, parser.TokenLBracket:
			brackets++
		case parser.TokenPipe, parser.TokenAnd, parser.TokenOr, parser.TokenEq, parser.TokenNE, parser.TokenPlus, parser.TokenMinus, parser.TokenStar, parser.TokenLT, parser.TokenGT, parser.TokenIn:
			ops++
		}
	}
	if brackets >= 1 || ops >= 2 {
		r.Nontrivial()
		if len(src) < 70 && brackets >= 1 && ops >= 2 {
			r.Sample(map[string]any{"source": src, "reprinted_tokens": len(printed)})
		}
	}
}
