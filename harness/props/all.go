// Package props links every property package into the binary.
package props

import (
	_ "verif/harness/props/c09"
)
