// Package props links every property package into the binary.
package props

import (
	_ "verif/harness/props/c01"
	_ "verif/harness/props/c02"
	_ "verif/harness/props/c03"
	_ "verif/harness/props/c04"
	_ "verif/harness/props/c05"
	_ "verif/harness/props/c06"
	_ "verif/harness/props/c07"
	_ "verif/harness/props/c08"
	_ "verif/harness/props/c09"
	_ "verif/harness/props/c10"
	_ "verif/harness/props/c11"
	_ "verif/harness/props/c12"
	_ "verif/harness/props/c13"
	_ "verif/harness/props/c14"
	_ "verif/harness/props/c15"
	_ "verif/harness/props/c16"
)
