// Package c04: literals and names are transmitted as data, never as SQL syntax.
package c04

import (
	"encoding/json"
	"fmt"
	"strings"

	"github.com/runreveal/pql/parser"

	"verif/harness/gen"
	"verif/harness/mon"
	. "verif/harness/pqlref"
	"verif/harness/sqlmini"
)

// Case is one filling of one hole of one skeleton.
type Case struct {
	Skel string `json:"skel"`
	Kind string `json:"kind"` // str id num
	Fill string `json:"fill"` // str/id: the value; num: the lexeme
	DQ   bool   `json:"dq"`   // str: double-quoted spelling
	// Bound: id holes only, plain names only: the program is preceded by lets
	// that bind that very name (a quoted name is never a reference to a binding).
	Bound bool `json:"bound,omitempty"`
	// Bare: id holes only, plain names only: the name is written without back quotes.
	Bare bool `json:"bare,omitempty"`
}

func init() {
	mon.Register(&mon.Prop{
		ID:       "C04",
		Generate: generate,
		Replay: func(raw json.RawMessage, r *mon.R) {
			var c Case
			json.Unmarshal(raw, &c)
			if strings.HasPrefix(c.Skel, "@") {
				CheckPlacement(&c, r)
				return
			}
			Check(&c, r)
		},
		Rule: "program skeletons with one hole at every position where a string literal (12 positions, both quote styles), a backtick identifier (17 positions: table, column, qualified part, aliases, as, render type/property name/value, join key/table, sort/top key, argument, implicit alias) " +
			"or a number (6 positions) can occur; fillings: every string of <=2 symbols over a 16-symbol hostile alphabet (three quote kinds, backslash, comment markers, semicolon, brackets, space, NUL, newline, non-ASCII, invalid UTF-8), injection idioms and seeded longer strings; " +
			"numbers in every spelling (decimal, leading zeros, leading/trailing dot, exponents, hex up to 2^64-1). oracle (metamorphic against the filling 'a' / 1): in both SQL lexer modes the token kind sequence is unchanged and free of comment/error tokens, " +
			"every token whose text changed is a string, quoted identifier or number, and decodes under ClickHouse rules to the PQL value (strings after escape processing, names after backtick un-doubling, numbers as exact rationals). " +
			"non-trivial = distinct (skeleton, filling) whose filling contains a character that is special in SQL or PQL",
		FloorQuick: 10_000, FloorThorough: 300_000,
		Assumptions: []string{
			"target dialect for decoding is ClickHouse (backslash escapes inside all three quote kinds); structure is checked under both ClickHouse and standard quoting",
			"empty backtick identifiers and identifiers containing a newline are outside the language / excluded (DESIGN.md section 7)",
		},
	})
}

type skel struct {
	name string
	kind string
	mk   func(h *E, id Ident) *Program
}

func idp(n string) *Ident { return &Ident{Name: n} }

var skels = []skel{
	// string literal holes
	{"where-eq", "str", func(h *E, _ Ident) *Program { return Query("T", &Op{K: "where", X: Bin("==", Name("a"), h)}) }},
	{"in-list", "str", func(h *E, _ Ident) *Program {
		return Query("T", &Op{K: "where", X: In(Name("a"), Str("'x'", "x"), h, Str("'y'", "y"))})
	}},
	{"call-arg", "str", func(h *E, _ Ident) *Program {
		return Query("T", &Op{K: "where", X: Bin("==", Call("f", h, Num("1")), Num("2"))})
	}},
	{"project", "str", func(h *E, _ Ident) *Program {
		return Query("T", &Op{K: "project", Cols: []Col{{Name: idp("p"), X: h}}})
	}},
	{"strcat", "str", func(h *E, _ Ident) *Program {
		return Query("T", &Op{K: "extend", Cols: []Col{{Name: idp("e"), X: Call("strcat", h, Name("a"))}}})
	}},
	{"render-value", "str", func(h *E, _ Ident) *Program {
		return Query("T", &Op{K: "render", Name: Ident{Name: "barchart"}, With: true, Props: []Prop{{Name: Ident{Name: "title"}, Val: h}}})
	}},
	{"render-among-others", "str", func(h *E, _ Ident) *Program {
		// the literal sits between properties whose values are not literals: it
		// must reach exactly its own column (checked by occurrence count below)
		return Query("T", &Op{K: "render", Name: Ident{Name: "linechart"}, With: true, Props: []Prop{
			{Name: Ident{Name: "ymin"}, Val: Un("-", Num("1"))}, {Name: Ident{Name: "title"}, Val: h}, {Name: Ident{Name: "ymax"}, Val: Un("-", Num("5"))},
			{Name: Ident{Name: "legend"}, Val: Call("strcat", Name("x"), Name("y"))}, {Name: Ident{Name: "kind"}, Val: Name("stacked")}}})
	}},
	{"after-strings", "str", func(h *E, _ Ident) *Program {
		return Query("T", &Op{K: "where", X: Bin("and", Bin("==", Name("a"), Str("'plain'", "plain")), Bin("==", Name("b"), Str("\"other\"", "other")))}, &Op{K: "where", X: Bin("==", Name("c"), h)}, &Op{K: "extend", Cols: []Col{{Name: idp("d"), X: Str("'tail'", "tail")}}})
	}},
	{"let", "str", func(h *E, _ Ident) *Program {
		return &Program{Stmts: []*Stmt{{LetName: idp("v"), LetX: h}, {Pipe: &Pipe{Table: Ident{Name: "T"}, Ops: []*Op{{K: "where", X: Bin("==", Name("a"), Name("v"))}}}}}}
	}},
	{"map-key", "str", func(h *E, _ Ident) *Program {
		return Query("T", &Op{K: "where", X: Bin("==", Idx(Name("m"), h), Num("1"))})
	}},
	{"countif", "str", func(h *E, _ Ident) *Program {
		return Query("T", &Op{K: "summarize", Cols: []Col{{Name: idp("c"), X: Call("countif", Bin("==", Name("a"), h))}}, HasBy: true, By: []Col{{X: Name("k")}}})
	}},
	{"join-on", "str", func(h *E, _ Ident) *Program {
		return Query("T", &Op{K: "join", Right: &Pipe{Table: Ident{Name: "U"}}, Conds: []*E{Name("k"), Bin("!=", Name("$left", "a"), h)}})
	}},
	{"sort-iff", "str", func(h *E, _ Ident) *Program {
		return Query("T", &Op{K: "sort", Terms: []SortTerm{{X: Call("iff", Bin("=~", Name("a"), h), Num("1"), Num("2"))}}})
	}},
	{"extend-unnamed", "str", func(h *E, _ Ident) *Program { return Query("T", &Op{K: "extend", Cols: []Col{{X: h}}}) }},
	{"in-list-wide", "str", func(h *E, _ Ident) *Program {
		e := In(Name("a"))
		for i := 0; i < 20; i++ {
			if i == 13 {
				e.Kids = append(e.Kids, h)
			} else {
				e.Kids = append(e.Kids, Str(fmt.Sprintf("'v%d'", i), fmt.Sprintf("v%d", i)))
			}
		}
		return Query("T", &Op{K: "where", X: e})
	}},
	{"in-list-45", "str", func(h *E, _ Ident) *Program {
		// 45 string literals; the hole is the 40th
		e := In(Name("a"))
		for i := 0; i < 45; i++ {
			if i == 39 {
				e.Kids = append(e.Kids, h)
			} else {
				e.Kids = append(e.Kids, Str(fmt.Sprintf("'key%d'", i), fmt.Sprintf("key%d", i)))
			}
		}
		return Query("T", &Op{K: "where", X: e})
	}},
	{"in-list-130", "str", func(h *E, _ Ident) *Program {
		e := In(Name("a"))
		for i := 0; i < 130; i++ {
			if i == 128 {
				e.Kids = append(e.Kids, h)
			} else {
				e.Kids = append(e.Kids, Num(fmt.Sprint(i)))
			}
		}
		return Query("T", &Op{K: "where", X: e})
	}},
	{"strcat-wide", "str", func(h *E, _ Ident) *Program {
		e := Call("strcat")
		for i := 0; i < 12; i++ {
			if i == 9 {
				e.Kids = append(e.Kids, h)
			} else {
				e.Kids = append(e.Kids, Name(fmt.Sprintf("c%d", i)))
			}
		}
		return Query("T", &Op{K: "extend", Cols: []Col{{Name: idp("s"), X: e}}})
	}},
	{"project-wide", "str", func(h *E, _ Ident) *Program {
		op := &Op{K: "project"}
		for i := 0; i < 18; i++ {
			x := Name(fmt.Sprintf("c%d", i))
			if i == 16 {
				x = h
			}
			op.Cols = append(op.Cols, Col{Name: idp(fmt.Sprintf("p%d", i)), X: x})
		}
		return Query("T", op)
	}},
	// identifier holes
	{"join-right-as", "id", func(_ *E, id Ident) *Program {
		return Query("T", &Op{K: "join", Right: &Pipe{Table: Ident{Name: "U"}, Ops: []*Op{{K: "where", X: Name("q")}, {K: "as", Name: id}}}, Conds: []*E{Name("k")}})
	}},
	{"as-then-join", "id", func(_ *E, id Ident) *Program {
		return Query("T", &Op{K: "as", Name: id}, &Op{K: "join", Kind: "inner", Right: &Pipe{Table: Ident{Name: "U"}}, Conds: []*E{Name("k")}}, &Op{K: "count"})
	}},
	{"project-wide-alias", "id", func(_ *E, id Ident) *Program {
		op := &Op{K: "project"}
		for i := 0; i < 18; i++ {
			n := idp(fmt.Sprintf("p%d", i))
			if i == 17 {
				n = &id
			}
			op.Cols = append(op.Cols, Col{Name: n, X: Name(fmt.Sprintf("c%d", i))})
		}
		return Query("T", op)
	}},
	{"table", "id", func(_ *E, id Ident) *Program {
		return &Program{Stmts: []*Stmt{{Pipe: &Pipe{Table: id, Ops: []*Op{{K: "count"}}}}}}
	}},
	{"column", "id", func(_ *E, id Ident) *Program {
		return Query("T", &Op{K: "where", X: Bin("==", &E{K: "name", Parts: []Ident{id}}, Num("1"))})
	}},
	{"qualified", "id", func(_ *E, id Ident) *Program {
		return Query("T", &Op{K: "where", X: Bin("==", &E{K: "name", Parts: []Ident{{Name: "a"}, id}}, Num("1"))})
	}},
	{"project-alias", "id", func(_ *E, id Ident) *Program {
		return Query("T", &Op{K: "project", Cols: []Col{{Name: &id, X: Name("a")}}})
	}},
	{"project-col", "id", func(_ *E, id Ident) *Program { return Query("T", &Op{K: "project", Cols: []Col{{Name: &id}}}) }},
	{"extend-alias", "id", func(_ *E, id Ident) *Program {
		return Query("T", &Op{K: "extend", Cols: []Col{{Name: &id, X: Num("1")}}})
	}},
	{"summarize-alias", "id", func(_ *E, id Ident) *Program {
		return Query("T", &Op{K: "summarize", Cols: []Col{{Name: &id, X: Call("count")}}, HasBy: true, By: []Col{{X: Name("k")}}})
	}},
	{"summarize-by-alias", "id", func(_ *E, id Ident) *Program {
		return Query("T", &Op{K: "summarize", Cols: []Col{{Name: idp("c"), X: Call("count")}}, HasBy: true, By: []Col{{Name: &id, X: Name("k")}}})
	}},
	{"as", "id", func(_ *E, id Ident) *Program { return Query("T", &Op{K: "as", Name: id}, &Op{K: "count"}) }},
	{"as-last", "id", func(_ *E, id Ident) *Program {
		return Query("T", &Op{K: "where", X: Bin("==", Name("a"), Num("1"))}, &Op{K: "as", Name: id})
	}},
	{"as-only", "id", func(_ *E, id Ident) *Program { return Query("T", &Op{K: "as", Name: id}) }},
	{"render-type", "id", func(_ *E, id Ident) *Program { return Query("T", &Op{K: "render", Name: id}) }},
	{"render-prop-name", "id", func(_ *E, id Ident) *Program {
		return Query("T", &Op{K: "render", Name: Ident{Name: "pie"}, With: true, Props: []Prop{{Name: id, Val: Num("1")}}})
	}},
	{"render-prop-name-among-others", "id", func(_ *E, id Ident) *Program {
		return Query("T", &Op{K: "render", Name: Ident{Name: "pie"}, With: true, Props: []Prop{
			{Name: Ident{Name: "title"}, Val: Str("'t'", "t")}, {Name: id, Val: Num("1")}, {Name: Ident{Name: "kind"}, Val: Name("stacked")}, {Name: Ident{Name: "xtitle"}, Val: Str("'x'", "x")}}})
	}},
	{"render-prop-value", "id", func(_ *E, id Ident) *Program {
		return Query("T", &Op{K: "render", Name: Ident{Name: "pie"}, With: true, Props: []Prop{{Name: Ident{Name: "k"}, Val: &E{K: "name", Parts: []Ident{id}}}}})
	}},
	{"join-key", "id", func(_ *E, id Ident) *Program {
		return Query("T", &Op{K: "join", Right: &Pipe{Table: Ident{Name: "U"}}, Conds: []*E{Bin("==", &E{K: "name", Parts: []Ident{{Name: "$left"}, id}}, &E{K: "name", Parts: []Ident{{Name: "$right"}, id}})}})
	}},
	{"sort-two", "id", func(_ *E, id Ident) *Program {
		return Query("T", &Op{K: "sort", Terms: []SortTerm{{X: Name("a", "b"), Dir: "asc"}, {X: &E{K: "name", Parts: []Ident{id}}, Dir: "desc"}, {X: Name("c")}}})
	}},
	{"group-two", "id", func(_ *E, id Ident) *Program {
		return Query("T", &Op{K: "summarize", Cols: []Col{{Name: idp("n"), X: Call("count")}}, HasBy: true, By: []Col{{Name: idp("g1"), X: Name("a", "b")}, {Name: idp("g2"), X: &E{K: "name", Parts: []Ident{id}}}}})
	}},
	{"join-keys-3", "id", func(_ *E, id Ident) *Program {
		return Query("T", &Op{K: "join", Right: &Pipe{Table: Ident{Name: "U"}}, Conds: []*E{Name("k1"), &E{K: "name", Parts: []Ident{id}}, Name("k3")}})
	}},
	{"after-quoted-id", "id", func(_ *E, id Ident) *Program {
		return &Program{Stmts: []*Stmt{{Pipe: &Pipe{Table: Ident{Name: "my table", Quoted: true}, Ops: []*Op{{K: "where", X: Bin("==", QName("plain name"), &E{K: "name", Parts: []Ident{id}})}, {K: "project", Cols: []Col{{Name: &id}, {Name: &Ident{Name: "z z", Quoted: true}, X: &E{K: "name", Parts: []Ident{id}}}}}}}}}}
	}},
	{"join-qualifier", "id", func(_ *E, id Ident) *Program {
		return Query("T", &Op{K: "join", Right: &Pipe{Table: Ident{Name: "U"}}, Conds: []*E{Name("k"), Bin("==", &E{K: "name", Parts: []Ident{id, {Name: "a"}}}, Name("$right", "a"))}})
	}},
	{"join-qualifier-right", "id", func(_ *E, id Ident) *Program {
		return Query("T", &Op{K: "join", Kind: "inner", Right: &Pipe{Table: Ident{Name: "U"}}, Conds: []*E{Bin("==", Name("$left", "a"), &E{K: "name", Parts: []Ident{id, {Name: "a"}}})}})
	}},
	{"join-table", "id", func(_ *E, id Ident) *Program {
		return Query("T", &Op{K: "join", Kind: "leftouter", Right: &Pipe{Table: id}, Conds: []*E{Name("k")}})
	}},
	{"sort-key", "id", func(_ *E, id Ident) *Program {
		return Query("T", &Op{K: "sort", Terms: []SortTerm{{X: &E{K: "name", Parts: []Ident{id}}, Dir: "asc"}}})
	}},
	{"top-key", "id", func(_ *E, id Ident) *Program {
		return Query("T", &Op{K: "top", X: Num("3"), Terms: []SortTerm{{X: &E{K: "name", Parts: []Ident{id}}}}})
	}},
	{"call-arg-id", "id", func(_ *E, id Ident) *Program {
		return Query("T", &Op{K: "where", X: Call("f", &E{K: "name", Parts: []Ident{id}})})
	}},
	{"extend-unnamed-id", "id", func(_ *E, id Ident) *Program {
		return Query("T", &Op{K: "extend", Cols: []Col{{X: &E{K: "name", Parts: []Ident{id}}}}})
	}},
	// two holes of different kinds whose source spellings are the same text:
	// a quoted name and a string holding that name's backtick-doubled spelling
	{"both-where", "both", func(h *E, id Ident) *Program {
		return Query("T", &Op{K: "where", X: Bin("==", &E{K: "name", Parts: []Ident{id}}, h)})
	}},
	{"both-project", "both", func(h *E, id Ident) *Program {
		return Query("T", &Op{K: "project", Cols: []Col{{Name: &id, X: h}, {Name: idp("z"), X: Call("strcat", h, &E{K: "name", Parts: []Ident{id}})}}})
	}},
	{"both-reversed", "both", func(h *E, id Ident) *Program {
		return Query("T", &Op{K: "where", X: Bin("!=", h, Num("1"))}, &Op{K: "summarize", Cols: []Col{{Name: idp("n"), X: Call("count")}}, HasBy: true, By: []Col{{Name: &id, X: h}}})
	}},
	// number holes
	{"num-where", "num", func(h *E, _ Ident) *Program { return Query("T", &Op{K: "where", X: Bin("==", Name("a"), h)}) }},
	{"num-datetime", "num", func(h *E, _ Ident) *Program {
		return Query("T", &Op{K: "where", X: Bin(">", Name("ts"), Call("datetime", h))}, &Op{K: "extend", Cols: []Col{{Name: idp("d"), X: Call("date", h, Num("1"))}}})
	}},
	{"num-strcat", "num", func(h *E, _ Ident) *Program {
		return Query("T", &Op{K: "extend", Cols: []Col{{Name: idp("s"), X: Call("strcat", Name("a"), Str("'v'", "v"), h, Str("'w'", "w"))}}})
	}},
	{"num-in-list", "num", func(h *E, _ Ident) *Program {
		return Query("T", &Op{K: "where", X: In(Name("a"), Num("1"), h, Num("3"))})
	}},
	{"num-take", "int", func(h *E, _ Ident) *Program { return Query("T", &Op{K: "take", X: h}) }},
	{"num-top", "int", func(h *E, _ Ident) *Program {
		return Query("T", &Op{K: "top", X: h, Terms: []SortTerm{{X: Name("a")}}})
	}},
	{"num-index", "num", func(h *E, _ Ident) *Program {
		return Query("T", &Op{K: "where", X: Bin("==", Idx(Name("m"), h), Num("1"))})
	}},
	{"num-render", "num", func(h *E, _ Ident) *Program {
		return Query("T", &Op{K: "render", Name: Ident{Name: "pie"}, With: true, Props: []Prop{{Name: Ident{Name: "n"}, Val: h}}})
	}},
	{"num-let", "int", func(h *E, _ Ident) *Program {
		return &Program{Stmts: []*Stmt{{LetName: idp("n"), LetX: h}, {Pipe: &Pipe{Table: Ident{Name: "T"}, Ops: []*Op{{K: "take", X: Name("n")}}}}}}
	}},
	{"num-unary", "num", func(h *E, _ Ident) *Program {
		return Query("T", &Op{K: "where", X: Bin("<", Un("-", h), Bin("*", Name("a"), h))})
	}},
}

var hostile = []string{"'", "\"", "`", "\\", "-", "/", "*", ";", "(", ")", " ", "\x00", "\n", "é", "\xff", "a"}

var idioms = []string{
	"' OR 1=1 --", "x' , (select 1) as y, '", "*/", "/*", "\\'", "\\", "a\\", "\\\\", "\\\\'", "'; DROP TABLE t; --", "\" OR \"\"=\"", "`; `", "--", "-- x", "#", "# x",
	"{p:String}", "$1", "?", "a\tb", "it's", "say \"hi\"", "a``b", "''", "\"\"", "\\n", "\\x41", "\\0", "x\\", "%s", "%d", "%v", "%%", "100%", "a%sb", "%!", "\r\n", "ünï\xc3", "\xe2\x28\xa1", "0x", "1e", "SELECT", "select * from t",
	"\u2018", "\u2019", "\u201c", "\u201d", "x\u2019 or b == \u2018y", "\u201d or \u201c", "\uff07", "\u00b4", "\u02bc", "a\u2019", "\u2018a",
	"a'b\"c`d\\e", "'''", "\"\"\"", "```", "\\\\\\", "\\'\\\"\\`", "end*/ x /*", "x'--", "x\"--", "x`--", ") AS \"y\", (", "\x00'", "'\x00",
}

var prefixFills = []string{"", "\"", "\\", "'", "`", "\" AS (SELECT 1) SELECT * FROM secrets -- ", "\\\"", "a\"b", "x\\", " ", ";", "--", "/*", "\x00", "é"}

var numFills = []string{"0", "1", "7", "42", "2024", "1999", "0999", "12345", "2024.0", "007", "00", "0.5", ".5", "5.", "0.", "1.50", "00.10", "1e3", "1E3", "1e+3", "1e-3", "2.5e10", "5.e2", ".5e1", "0e0", "1e0", "1e00", "1e01",
	"0x0", "0x1F", "0XaB", "0xffffffffffffffff", "0x7fffffffffffffff", "18446744073709551615", "9223372036854775808", "123456789012345678901234567890", "1e308", "1e-320", "0.000001", "100", "1e400",
	"0x000000000000000ff", "0x0ffffffffffffffff", "0x8000000000000000", "18446744073709551616", "00000000000000000000018446744073709551615", "1E5", "25E2", "7E+3", "0E9", "1e00000000000000000001"}
var intFills = []string{"0", "1", "7", "42", "007", "00", "100", "0x0", "0x1F", "0XaB", "0xffffffffffffffff", "18446744073709551615", "123456789012345678901234567890",
	"0x000000000000000ff", "0x0ffffffffffffffff", "0x8000000000000000", "18446744073709551616", "9223372036854775808", "00000000000000000000018446744073709551615"}

func special(s string) bool {
	return strings.ContainsAny(s, "'\"`\\-/*;()#{}$? \x00\n\t\r") || !isASCII(s)
}
func isASCII(s string) bool {
	for i := 0; i < len(s); i++ {
		if s[i] >= 0x80 {
			return false
		}
	}
	return true
}

func generate(w *mon.W) {
	var fills []string
	gen.EnumStrings(hostile, 2, func(s string) bool { fills = append(fills, s); return true })
	fills = append(fills, idioms...)
	// characters that become a quote, a backslash, an escape letter, … when cut
	// down to one byte: alone, after a backslash, before a quote
	for _, ch := range gen.LowByteLookalikes {
		fills = append(fills, ch, "\\"+ch, "a"+ch+"'", ch+"\"", "\\"+ch+"\\"+ch)
	}
	rng := gen.RNG(w.Seed, "c04")
	nr := w.Pick(150, 6000)
	for i := 0; i < nr; i++ {
		var sb strings.Builder
		for n := 3 + rng.Intn(10); n > 0; n-- {
			if rng.Intn(3) == 0 {
				sb.WriteString(idioms[rng.Intn(len(idioms))])
			} else {
				sb.WriteString(hostile[rng.Intn(len(hostile))])
			}
		}
		fills = append(fills, sb.String())
	}
	// long contents with a hostile character at the end, in the middle and at the start
	for _, L := range []int{31, 32, 33, 63, 64, 65, 127, 128, 129, 255, 256, 257, 1023, 1024, 1025, 4095, 4096, 4097, 65535, 65536, 65537} {
		for _, h := range []string{"'", "\"", "\\", "`", "é", "\xff"} {
			fills = append(fills, strings.Repeat("a", L-1)+h, h+strings.Repeat("b", L-1), strings.Repeat("c", L/2)+h+strings.Repeat("c", L-L/2-1), strings.Repeat(h, L/len(h)))
		}
	}
	if !w.Quick() {
		gen.EnumStrings(hostile, 3, func(s string) bool {
			if len(s) >= 3 {
				fills = append(fills, s)
			}
			return true
		})
	}
	for _, t := range placementTemplates() {
		for _, kind := range []string{"id", "str"} {
			for _, f := range placementFills {
				if kind == "id" && strings.Contains(f, "\n") {
					continue
				}
				c := &Case{Skel: "@" + t, Kind: kind, Fill: f, DQ: len(f)%2 == 0}
				w.Do(fmt.Sprintf("@%s|%s|%s", t, kind, f), func(r *mon.R) { CheckPlacement(c, r) })
			}
		}
		if w.Stopped() {
			return
		}
	}
	for _, sk := range skels {
		if w.Stopped() {
			return
		}
		switch sk.kind {
		case "str":
			for _, f := range fills {
				for _, dq := range []bool{false, true} {
					c := &Case{Skel: sk.name, Kind: "str", Fill: f, DQ: dq}
					w.Do(fmt.Sprintf("%s|%v|%s", sk.name, dq, f), func(r *mon.R) { Check(c, r) })
				}
			}
		case "both":
			for _, f := range fills {
				if strings.Contains(f, "\n") || f == "" || len(f) > 300 {
					continue
				}
				for _, dq := range []bool{false, true} {
					c := &Case{Skel: sk.name, Kind: "both", Fill: f, DQ: dq}
					w.Do(fmt.Sprintf("%s|%v|%s", sk.name, dq, f), func(r *mon.R) { Check(c, r) })
				}
			}
		case "id":
			for _, f := range fills {
				if strings.Contains(f, "\n") || f == "" {
					continue
				}
				c := &Case{Skel: sk.name, Kind: "id", Fill: f}
				w.Do(fmt.Sprintf("%s|%s", sk.name, f), func(r *mon.R) { Check(c, r) })
			}
			// plain names written without back quotes (a bare join key, a bare column)
			for _, f := range []string{"zz9", "K1", "_u", "x1", "Title", "k3x", "b", "k"} {
				c := &Case{Skel: sk.name, Kind: "id", Fill: f, Bare: true}
				w.Do(fmt.Sprintf("%s|bare|%s", sk.name, f), func(r *mon.R) { Check(c, r) })
			}
			// render names written without back quotes that are also bound by lets:
			// a render name is data whatever else goes by that name
			if strings.HasPrefix(sk.name, "render-") {
				for _, f := range []string{"zz9", "n", "k", "x1", "Title"} {
					c := &Case{Skel: sk.name, Kind: "id", Fill: f, Bound: true, Bare: true}
					w.Do(fmt.Sprintf("%s|barebound|%s", sk.name, f), func(r *mon.R) { Check(c, r) })
				}
			}
			// plain names that are also bound by lets written before the query
			for _, f := range []string{"a", "t", "n", "T", "k", "x1", "_u", "count", "title", "null", "true", "stacked"} {
				c := &Case{Skel: sk.name, Kind: "id", Fill: f, Bound: true}
				w.Do(fmt.Sprintf("%s|bound|%s", sk.name, f), func(r *mon.R) { Check(c, r) })
			}
			// the names the program itself already uses, as they are and in other
			// letter case (content that differs from a neighbour's by case only is
			// different content)
			{
				seen := map[string]bool{}
				// two neighbouring names read as one dotted name (`a.b` is one name, a.b is two)
				if toks := Tokens(Print(sk.mk(nil, Ident{Name: placementRef, Quoted: true}), Layout{Mode: 0}).Src); true {
					for i := 0; i+2 < len(toks); i++ {
						if toks[i].Kind == parser.TokenIdentifier && toks[i+1].Kind == parser.TokenDot && toks[i+2].Kind == parser.TokenIdentifier {
							f := toks[i].Val + "." + toks[i+2].Val
							if !seen[f] {
								seen[f] = true
								c := &Case{Skel: sk.name, Kind: "id", Fill: f}
								w.Do(fmt.Sprintf("%s|%s", sk.name, f), func(r *mon.R) { Check(c, r) })
							}
						}
					}
				}
				for _, t := range Tokens(Print(sk.mk(nil, Ident{Name: placementRef, Quoted: true}), Layout{Mode: 0}).Src) {
					if (t.Kind == parser.TokenIdentifier || t.Kind == parser.TokenQuotedIdentifier) && t.Val != placementRef && t.Val != "" {
						for _, f := range []string{t.Val, strings.ToUpper(t.Val), strings.ToLower(t.Val), strings.ToUpper(t.Val[:1]) + t.Val[1:], t.Val[:len(t.Val)-1] + strings.ToUpper(t.Val[len(t.Val)-1:])} {
							if seen[f] || strings.HasPrefix(sk.name, "join-qualifier") && (f == "$left" || f == "$right") {
								continue
							}
							seen[f] = true
							c := &Case{Skel: sk.name, Kind: "id", Fill: f}
							w.Do(fmt.Sprintf("%s|%s", sk.name, f), func(r *mon.R) { Check(c, r) })
						}
					}
				}
			}
			// names that look like the compiler's own (generated subquery names,
			// join aliases, render columns, built-ins) followed by hostile content
			for _, pre := range []string{"__subquery0", "__subquery", "$left", "$right", "$LEFT", "$Right", "$RIGHT", "$Left", "render_prop_", "render_type", "Render_Prop_", "count()", "COUNT()", "NULL", "Null", "true", "TRUE", "let", "LET", "T"} {
				for _, f := range prefixFills {
					if strings.Contains(f, "\n") {
						continue
					}
					if strings.HasPrefix(sk.name, "join-qualifier") && (pre+f == "$left" || pre+f == "$right") {
						continue // a quoted `$left` qualifier is the left side itself: the name selects what it refers to
					}
					c := &Case{Skel: sk.name, Kind: "id", Fill: pre + f}
					w.Do(fmt.Sprintf("%s|%s", sk.name, pre+f), func(r *mon.R) { Check(c, r) })
				}
			}
		case "num", "int":
			l := numFills
			if sk.kind == "int" {
				l = intFills
			}
			for _, f := range l {
				c := &Case{Skel: sk.name, Kind: sk.kind, Fill: f}
				w.Do(fmt.Sprintf("%s|%s", sk.name, f), func(r *mon.R) { Check(c, r) })
			}
			// seeded numbers
			for i := 0; i < w.Pick(40, 2000); i++ {
				var f string
				switch rng.Intn(4) {
				case 0:
					f = fmt.Sprintf("%d", rng.Int63())
				case 1:
					f = fmt.Sprintf("0x%X", rng.Uint64())
				case 2:
					f = fmt.Sprintf("%0*d", 1+rng.Intn(25), rng.Int63())
				default:
					if sk.kind == "int" {
						f = fmt.Sprintf("%d", rng.Intn(1000))
					} else {
						f = fmt.Sprintf("%d.%de%d", rng.Intn(1000), rng.Intn(100000), rng.Intn(80)-40)
					}
				}
				c := &Case{Skel: sk.name, Kind: sk.kind, Fill: f}
				w.Do(fmt.Sprintf("%s|%s", sk.name, f), func(r *mon.R) { Check(c, r) })
			}
		}
	}
}

// placementTemplates puts a hole where the grammar does not necessarily
// expect a literal or a quoted name: every token of every base program is in
// turn replaced by the hole, and the hole is inserted before every token. Most
// results do not compile; for those that do, the content must still be data.
func placementTemplates() []string {
	var bases []string
	for _, sk := range skels {
		var h *E
		id := Ident{Name: "a", Quoted: true}
		switch sk.kind {
		case "str":
			h = StrLit("a", false)
		case "id":
		default:
			h = Num("1")
		}
		bases = append(bases, Print(sk.mk(h, id), Layout{Mode: 0}).Src)
	}
	bases = append(bases,
		"T | where f ( x ) and g ( y , 2 ) [ 1 ] == - z",
		"T | join kind = inner ( U | project k , v = f ( w ) ) on k , $left . a == $right . b | sort by a asc nulls first , b desc | take 3",
		"let n = 3 ; T | summarize c = count ( ) , s = sum ( x ) by k , b = x % 2 | top n by c desc | as R | render barchart with ( title = 'x' , kind = stacked )",
		"T | extend x = iff ( a in ( 1 , 2 ) , tolower ( s ) , strcat ( s , 'y' ) ) | project x , y = not ( b ) | limit 5 | count")
	seen := map[string]bool{}
	var out []string
	add := func(t string) {
		if !seen[t] {
			seen[t] = true
			out = append(out, t)
		}
	}
	for _, b := range bases {
		toks := Tokens(b)
		for i := 0; i <= len(toks); i++ {
			at := len(b)
			if i < len(toks) {
				at = toks[i].Start
				add(b[:toks[i].Start] + " \x01 " + b[toks[i].End:]) // replaced
			}
			add(b[:at] + " \x01 " + b[at:]) // inserted
		}
	}
	return out
}

var placementFills = []string{"' OR 1=1 --", "\"", "'", "`", "\\", "a\\", "\\'", "x\" , (select 1) as y, \"", "sleep(3)) OR 1=1 -- ", "*/", "/*", "--", "-- x", ";", "a b", "(", ")", "\x00", "é", "\xff",
	"__subquery0", "a\"b", "x'--", "\" AS (SELECT 1) SELECT * FROM secrets -- ", "{p:String}", "$1"}

// PlacementSources lists the concrete sources of the hostile placements (every
// template with a quoted name and a string of every placement content), for
// checks that judge any successful compilation.
func PlacementSources() []string {
	var out []string
	for _, t := range placementTemplates() {
		for _, kind := range []string{"id", "str"} {
			for _, f := range placementFills {
				if kind == "id" && strings.Contains(f, "\n") {
					continue
				}
				c := &Case{Kind: kind, DQ: len(f)%2 == 0}
				out = append(out, strings.Replace(t, "\x01", holeText(c, f), 1))
			}
		}
	}
	return out
}

// SkeletonSources are the skeleton programs with the idiom contents (injection
// idioms, format verbs, placeholders, typographic quotes) at their string and
// name holes, for checks that judge any successful compilation.
func SkeletonSources() []string {
	var out []string
	fills := append(append([]string{}, idioms...), "%d", "%v", "%!", "%%", "100%", "%[1]s", "%", "a%sb", "{}", "{0}", "${x}", "$(x)", "\\%")
	for _, sk := range skels {
		for _, f := range fills {
			switch sk.kind {
			case "str":
				for _, dq := range []bool{false, true} {
					out = append(out, Print(sk.mk(StrLit(f, dq), Ident{}), Layout{Mode: 0}).Src)
				}
			case "id":
				if f != "" && !strings.Contains(f, "\n") {
					out = append(out, Print(sk.mk(nil, Ident{Name: f, Quoted: true}), Layout{Mode: 0}).Src)
				}
			}
		}
	}
	return out
}

func findSkel(name string) *skel {
	for i := range skels {
		if skels[i].name == name {
			return &skels[i]
		}
	}
	return nil
}

type compiled struct {
	src      string
	sql      string
	implicit []string
}

func compileWith(sk *skel, c *Case, fill string) (*compiled, string) {
	var h *E
	var id Ident
	switch c.Kind {
	case "str":
		h = StrLit(fill, c.DQ)
	case "id":
		id = Ident{Name: fill, Quoted: !c.Bare}
	case "both":
		id = Ident{Name: fill, Quoted: true}
		h = StrLit(strings.ReplaceAll(fill, "`", "``"), c.DQ)
	default:
		h = Num(fill)
	}
	prog := sk.mk(h, id)
	if c.Bound {
		// the binding always has the name of the case's own content, so that the
		// reference compilation (content "a") differs only in the quoted name
		lets := []*Stmt{{LetName: &Ident{Name: c.Fill}, LetX: Un("-", Num("5"))}, {LetName: &Ident{Name: "a"}, LetX: StrLit("bound", false)}}
		prog = &Program{Stmts: append(lets, prog.Stmts...)}
	}
	pr := Print(prog, Layout{Mode: 0})
	out := &compiled{src: pr.Src}
	for _, st := range prog.Stmts {
		if st.Pipe != nil {
			for _, op := range st.Pipe.Ops {
				for _, col := range append(append([]Col{}, op.Cols...), op.By...) {
					if col.Implicit != "" {
						out.implicit = append(out.implicit, col.Implicit)
					}
				}
			}
		}
	}
	sql, err, o := mon.Compile(pr.Src, nil)
	if o.Anomalous() {
		return nil, "anomaly"
	}
	if err != nil {
		return nil, "error: " + err.Error()
	}
	out.sql = sql
	return out, ""
}

// Check decides one case.
func Check(c *Case, r *mon.R) {
	r.Case = c
	sk := findSkel(c.Skel)
	if sk == nil {
		r.Inconclusive("unknown_skeleton")
		return
	}
	refFill := "a"
	if c.Kind == "num" || c.Kind == "int" {
		refFill = "1"
	}
	ref, why := compileWith(sk, c, refFill)
	if ref == nil {
		r.Inconclusive("foreign_reference_does_not_compile")
		return
	}
	got, why := compileWith(sk, c, c.Fill)
	if got == nil {
		if strings.HasPrefix(why, "error") {
			// whether a content may be rejected is not this property's
			// business, except that content must not change the verdict of a
			// program whose structure is fine: count it
			r.Violation("", "the content %q at the %s hole makes compilation fail (%s), while the same program with content %q compiles", c.Fill, c.Skel, why, refFill)
			return
		}
		r.Inconclusive("foreign_compile_anomaly")
		return
	}
	var wantNum *Number
	if c.Kind == "num" || c.Kind == "int" {
		t := Tokens(c.Fill)
		if len(t) != 1 || t[0].Num == nil {
			r.Inconclusive("not_a_number_lexeme")
			return
		}
		wantNum = t[0].Num
	}
	allowed := map[string]bool{c.Fill: true, "render_prop_" + c.Fill: true}
	if c.Skel == "render-prop-name" {
		// a property name is always prefixed, also when it starts with the prefix itself
		allowed = map[string]bool{"render_prop_" + c.Fill: true}
	}
	var allowedStr map[string]bool
	if c.Kind == "both" {
		// each token kind has its own expected content
		allowedStr = map[string]bool{strings.ReplaceAll(c.Fill, "`", "``"): true}
	}
	for _, im := range got.implicit {
		allowed[im] = true
	}
	decodedOK := 0
	for _, mode := range []sqlmini.Mode{sqlmini.ClickHouse, sqlmini.Standard} {
		mname := map[sqlmini.Mode]string{sqlmini.ClickHouse: "ClickHouse", sqlmini.Standard: "standard"}[mode]
		rt := sqlmini.Lex(ref.sql, mode)
		gt := sqlmini.Lex(got.sql, mode)
		for _, t := range gt {
			if t.Kind == sqlmini.TComment || t.Kind == sqlmini.TErr {
				r.Violation("", "content %q at the %s hole of %q opens a %v (%s) in the output under %s quoting rules:\n  %s", c.Fill, c.Skel, got.src, t.Kind, t.Val, mname, got.sql)
				return
			}
		}
		if a, b := sqlmini.KindSeq(rt), sqlmini.KindSeq(gt); a != b {
			r.Violation("", "content %q at the %s hole of %q changes the token structure of the output under %s quoting rules:\n  with %q: %s\n  with %q: %s\n  structure %s\n  versus    %s", c.Fill, c.Skel, got.src, mname, refFill, ref.sql, c.Fill, got.sql, a, b)
			return
		}
		for i := range gt {
			if gt[i].Text == rt[i].Text {
				continue
			}
			k := gt[i].Kind
			if k != sqlmini.TStr && k != sqlmini.TQIdent && k != sqlmini.TNum {
				r.Violation("", "content %q at the %s hole of %q changes the %v token %q of the output (%s rules): %s", c.Fill, c.Skel, got.src, k, gt[i].Text, mname, got.sql)
				return
			}
			if mode != sqlmini.ClickHouse {
				continue
			}
			if wantNum != nil {
				text := gt[i].Text
				if k != sqlmini.TNum {
					text = gt[i].Val
				}
				var n *Number
				if t := Tokens(text); len(t) == 1 && t[0].Num != nil {
					n = t[0].Num
				}
				if n == nil || !n.Equal(wantNum) {
					r.Violation("", "number %s at the %s hole of %q is emitted as %s, which is not the same value (%v vs %v): %s", c.Fill, c.Skel, got.src, gt[i].Text, wantNum, n, got.sql)
					return
				}
				decodedOK++
				continue
			}
			if ok := allowed[gt[i].Val]; (allowedStr != nil && k == sqlmini.TStr && !allowedStr[gt[i].Val]) || (!(allowedStr != nil && k == sqlmini.TStr) && !ok) {
				r.Violation("", "content %q at the %s hole of %q is emitted as %s, which the target dialect decodes to %q: %s", c.Fill, c.Skel, got.src, gt[i].Text, gt[i].Val, got.sql)
				return
			}
			decodedOK++
		}
	}
	if decodedOK == 0 && c.Fill != refFill {
		// a result name that nothing reads afterwards has no place in the output
		same := c.Skel == "as-last" || c.Skel == "as-only"
		if wantNum != nil {
			if t := Tokens(refFill); len(t) == 1 && t[0].Num.Equal(wantNum) {
				same = true
			}
		}
		if !same {
			r.Violation("", "content %q at the %s hole of %q does not reach the output: %s", c.Fill, c.Skel, got.src, got.sql)
			return
		}
	}
	if c.Skel == "render-among-others" && len(c.Fill) >= 2 {
		// exactly the corresponding token and nothing else: one occurrence
		n := 0
		for _, t := range sqlmini.Lex(got.sql, sqlmini.ClickHouse) {
			if t.Kind == sqlmini.TStr && t.Val == c.Fill {
				n++
			}
		}
		if n != 1 {
			r.Violation("", "content %q at the %s hole of %q appears in %d string tokens of the output, it belongs to one: %s", c.Fill, c.Skel, got.src, n, got.sql)
			return
		}
	}
	r.SetAdd("skeletons", c.Skel)
	if special(c.Fill) || wantNum != nil {
		r.Nontrivial()
		if len(c.Fill) <= 12 && len(c.Fill) >= 2 {
			r.Sample(map[string]any{"skeleton": c.Skel, "fill": c.Fill, "pql": got.src, "sql": got.sql})
		}
	}
}

// placementRef is the harmless reference content: a name no base program uses,
// so that it cannot coincide with a binding, a column or a function of its own.
const placementRef = "zq9"

func holeText(c *Case, fill string) string {
	if c.Kind == "str" {
		return PrintExpr(StrLit(fill, c.DQ))
	}
	return PrintExpr(&E{K: "name", Parts: []Ident{{Name: fill, Quoted: true}}})
}

// CheckPlacement decides one filling of a hole placed at an arbitrary token
// position. Whether such a program compiles is not this property's business;
// when it does, the content must have stayed inside one token.
func CheckPlacement(c *Case, r *mon.R) {
	r.Case = c
	tmpl := strings.TrimPrefix(c.Skel, "@")
	src := strings.Replace(tmpl, "\x01", holeText(c, c.Fill), 1)
	sql, err, o := mon.Compile(src, nil)
	if o.Anomalous() {
		r.Inconclusive("foreign_compile_anomaly")
		return
	}
	if err != nil {
		r.Count("placements_rejected", 1)
		return
	}
	r.Count("placements_compiled", 1)
	refSrc := strings.Replace(tmpl, "\x01", holeText(c, placementRef), 1)
	refSQL, rerr, ro := mon.Compile(refSrc, nil)
	haveRef := rerr == nil && !ro.Anomalous()
	for _, mode := range []sqlmini.Mode{sqlmini.ClickHouse, sqlmini.Standard} {
		mname := map[sqlmini.Mode]string{sqlmini.ClickHouse: "ClickHouse", sqlmini.Standard: "standard"}[mode]
		gt := sqlmini.Lex(sql, mode)
		for _, t := range gt {
			if t.Kind == sqlmini.TComment || t.Kind == sqlmini.TErr {
				r.Violation("", "content %q of the %s token placed in %q opens a %v (%s) in the output under %s quoting rules:\n  %s", c.Fill, c.Kind, src, t.Kind, t.Val, mname, sql)
				return
			}
		}
		if !haveRef {
			continue
		}
		rt := sqlmini.Lex(refSQL, mode)
		if a, b := sqlmini.KindSeq(rt), sqlmini.KindSeq(gt); a != b {
			r.Violation("", "content %q of the %s token placed in %q changes the token structure of the output under %s quoting rules:\n  with %q: %s\n  with %q: %s", c.Fill, c.Kind, src, mname, placementRef, refSQL, c.Fill, sql)
			return
		}
		for i := range gt {
			if gt[i].Text == rt[i].Text {
				continue
			}
			if k := gt[i].Kind; k != sqlmini.TStr && k != sqlmini.TQIdent {
				r.Violation("", "content %q of the %s token placed in %q changes the %v token %q of the output (%s rules):\n  with %q: %s\n  with %q: %s", c.Fill, c.Kind, src, k, gt[i].Text, mname, placementRef, refSQL, c.Fill, sql)
				return
			}
		}
	}
	if haveRef {
		r.SetAdd("placements_that_compile", clipS(refSrc, 100))
		r.Nontrivial()
	}
}

func clipS(s string, n int) string {
	if len(s) > n {
		return s[:n]
	}
	return s
}
