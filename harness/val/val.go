// Package val defines the value domain and the primitive operations shared by
// the SQL evaluator (sqlmini) and the PQL reference evaluator (pqlref). The
// two evaluators differ in *which* primitives they apply to *which* operands
// in *which* order — which is what the monitors test — not in arithmetic.
package val

import (
	"fmt"
	"hash/fnv"
	"math"
	"sort"
	"strconv"
	"strings"
)

type Kind uint8

const (
	Null Kind = iota
	Bool
	Int
	Float
	Str
	Arr
	// Err is a type error: the query fails. It is absorbing and an
	// observable outcome like any other.
	Err
)

// V is a value.
type V struct {
	K Kind
	B bool
	I int64
	F float64
	S string
	A []V
}

var (
	NULL  = V{K: Null}
	TRUE  = V{K: Bool, B: true}
	FALSE = V{K: Bool}
	ERR   = V{K: Err}
	// NOW is the symbolic current timestamp (an opaque integer constant).
	NOW = V{K: Int, I: 1_700_000_003}
)

func I(i int64) V        { return V{K: Int, I: i} }
func F(f float64) V      { return V{K: Float, F: f} }
func S(s string) V       { return V{K: Str, S: s} }
func B(b bool) V         { return V{K: Bool, B: b} }
func A(vs ...V) V        { return V{K: Arr, A: vs} }
func (v V) IsErr() bool  { return v.K == Err }
func (v V) IsNull() bool { return v.K == Null }

func (v V) String() string {
	switch v.K {
	case Null:
		return "NULL"
	case Bool:
		if v.B {
			return "TRUE"
		}
		return "FALSE"
	case Int:
		return strconv.FormatInt(v.I, 10)
	case Float:
		return strconv.FormatFloat(v.F, 'g', -1, 64) + "f"
	case Str:
		return strconv.Quote(v.S)
	case Arr:
		var p []string
		for _, e := range v.A {
			p = append(p, e.String())
		}
		return "[" + strings.Join(p, ",") + "]"
	}
	return "ERROR"
}

// Same is exact identity of values (NULL same as NULL, ERR same as ERR,
// NaN same as NaN): the relation the monitors use to compare outcomes.
func Same(a, b V) bool {
	if a.K != b.K {
		return false
	}
	switch a.K {
	case Bool:
		return a.B == b.B
	case Int:
		return a.I == b.I
	case Float:
		return a.F == b.F || (math.IsNaN(a.F) && math.IsNaN(b.F))
	case Str:
		return a.S == b.S
	case Arr:
		if len(a.A) != len(b.A) {
			return false
		}
		for i := range a.A {
			if !Same(a.A[i], b.A[i]) {
				return false
			}
		}
	}
	return true
}

func anyErr(vs ...V) bool {
	for _, v := range vs {
		if v.K == Err {
			return true
		}
	}
	return false
}

func isNum(v V) bool { return v.K == Int || v.K == Float }

func toF(v V) float64 {
	if v.K == Int {
		return float64(v.I)
	}
	return v.F
}

// Arith: + - * / % on numbers; NULL-propagating; otherwise ERR.
func Arith(op string, a, b V) V {
	if anyErr(a, b) {
		return ERR
	}
	if (!isNum(a) && a.K != Null) || (!isNum(b) && b.K != Null) {
		return ERR
	}
	if a.K == Null || b.K == Null {
		return NULL
	}
	if a.K == Int && b.K == Int {
		switch op {
		case "+":
			return I(a.I + b.I)
		case "-":
			return I(a.I - b.I)
		case "*":
			return I(a.I * b.I)
		case "/":
			if b.I == 0 {
				return NULL
			}
			if a.I == math.MinInt64 && b.I == -1 {
				return I(math.MinInt64)
			}
			return I(a.I / b.I)
		case "%":
			if b.I == 0 {
				return NULL
			}
			if b.I == -1 {
				return I(0)
			}
			return I(a.I % b.I)
		}
		return ERR
	}
	x, y := toF(a), toF(b)
	switch op {
	case "+":
		return F(x + y)
	case "-":
		return F(x - y)
	case "*":
		return F(x * y)
	case "/":
		if y == 0 {
			return NULL
		}
		return F(x / y)
	case "%":
		if y == 0 {
			return NULL
		}
		return F(math.Mod(x, y))
	}
	return ERR
}

// compare returns -1,0,1 and ok=false when the values are not comparable.
func compare(a, b V, orderOnly bool) (int, bool) {
	switch {
	case isNum(a) && isNum(b):
		if a.K == Int && b.K == Int {
			switch {
			case a.I < b.I:
				return -1, true
			case a.I > b.I:
				return 1, true
			}
			return 0, true
		}
		x, y := toF(a), toF(b)
		switch {
		case x < y:
			return -1, true
		case x > y:
			return 1, true
		}
		return 0, true
	case a.K == Str && b.K == Str:
		return strings.Compare(a.S, b.S), true
	case a.K == Bool && b.K == Bool:
		switch {
		case a.B == b.B:
			return 0, true
		case !a.B:
			return -1, true
		}
		return 1, true
	case a.K == Arr && b.K == Arr && !orderOnly:
		if Same(a, b) {
			return 0, true
		}
		return 1, true
	}
	return 0, false
}

// Cmp: = <> < <= > >= with SQL NULL semantics; incomparable types are ERR.
func Cmp(op string, a, b V) V {
	if anyErr(a, b) {
		return ERR
	}
	if op == "!=" {
		op = "<>"
	}
	orderOnly := op != "=" && op != "<>"
	if a.K == Null || b.K == Null {
		// still type-check the non-null side against nothing: NULL
		return NULL
	}
	c, ok := compare(a, b, orderOnly)
	if !ok {
		return ERR
	}
	switch op {
	case "=":
		return B(c == 0)
	case "<>":
		return B(c != 0)
	case "<":
		return B(c < 0)
	case "<=":
		return B(c <= 0)
	case ">":
		return B(c > 0)
	case ">=":
		return B(c >= 0)
	}
	return ERR
}

func boolish(v V) bool { return v.K == Bool || v.K == Null }

// And, Or, Not: SQL three-valued logic; non-boolean operands are ERR.
func And(a, b V) V {
	if anyErr(a, b) || !boolish(a) || !boolish(b) {
		return ERR
	}
	if (a.K == Bool && !a.B) || (b.K == Bool && !b.B) {
		return FALSE
	}
	if a.K == Null || b.K == Null {
		return NULL
	}
	return TRUE
}

func Or(a, b V) V {
	if anyErr(a, b) || !boolish(a) || !boolish(b) {
		return ERR
	}
	if (a.K == Bool && a.B) || (b.K == Bool && b.B) {
		return TRUE
	}
	if a.K == Null || b.K == Null {
		return NULL
	}
	return FALSE
}

func Not(a V) V {
	if a.K == Err || !boolish(a) {
		return ERR
	}
	if a.K == Null {
		return NULL
	}
	return B(!a.B)
}

// IsNull / IsNotNull never yield NULL.
func IsNull(a V) V {
	if a.K == Err {
		return ERR
	}
	return B(a.K == Null)
}

func IsNotNull(a V) V {
	if a.K == Err {
		return ERR
	}
	return B(a.K != Null)
}

// In: TRUE if some x = v is TRUE, else NULL if some is NULL, else FALSE.
func In(x V, list []V) V {
	if x.K == Err || anyErr(list...) {
		return ERR
	}
	sawNull := false
	res := FALSE
	for _, v := range list {
		c := Cmp("=", x, v)
		switch {
		case c.K == Err:
			return ERR
		case c.K == Null:
			sawNull = true
		case c.B:
			res = TRUE
		}
	}
	if res.B {
		return TRUE
	}
	if sawNull {
		return NULL
	}
	return FALSE
}

// Coalesce: first non-NULL argument.
func Coalesce(args ...V) V {
	if anyErr(args...) {
		return ERR
	}
	for _, a := range args {
		if a.K != Null {
			return a
		}
	}
	return NULL
}

func asciiLower(s string) string {
	b := []byte(s)
	for i, c := range b {
		if c >= 'A' && c <= 'Z' {
			b[i] = c + 32
		}
	}
	return string(b)
}

func asciiUpper(s string) string {
	b := []byte(s)
	for i, c := range b {
		if c >= 'a' && c <= 'z' {
			b[i] = c - 32
		}
	}
	return string(b)
}

func Lower(a V) V {
	switch a.K {
	case Null:
		return NULL
	case Str:
		return S(asciiLower(a.S))
	}
	return ERR
}

func Upper(a V) V {
	switch a.K {
	case Null:
		return NULL
	case Str:
		return S(asciiUpper(a.S))
	}
	return ERR
}

// Concat: string concatenation, NULL-propagating.
func Concat(args ...V) V {
	if anyErr(args...) {
		return ERR
	}
	for _, a := range args {
		if a.K != Str && a.K != Null {
			return ERR
		}
	}
	var sb strings.Builder
	for _, a := range args {
		if a.K == Null {
			return NULL
		}
		sb.WriteString(a.S)
	}
	return S(sb.String())
}

// Index: 1-based array element; absent is NULL.
func Index(x, i V) V {
	if anyErr(x, i) {
		return ERR
	}
	if x.K == Null {
		if i.K != Int && i.K != Null {
			return ERR
		}
		return NULL
	}
	if x.K == Str {
		// a string indexed by an integer: its i-th byte (shared definition; engines differ)
		if i.K == Null {
			return NULL
		}
		if i.K != Int {
			return ERR
		}
		if i.I < 1 || i.I > int64(len(x.S)) {
			return NULL
		}
		return S(x.S[i.I-1 : i.I])
	}
	if x.K != Arr {
		return ERR
	}
	if i.K == Null {
		return NULL
	}
	if i.K != Int {
		return ERR
	}
	if i.I < 1 || i.I > int64(len(x.A)) {
		return NULL
	}
	return x.A[i.I-1]
}

func Neg(a V) V {
	switch a.K {
	case Null:
		return NULL
	case Int:
		return I(-a.I)
	case Float:
		return F(-a.F)
	}
	return ERR
}

func Pos(a V) V {
	switch a.K {
	case Null, Int, Float:
		return a
	}
	return ERR
}

// Case: a if c is TRUE else b.
func Case(c, a, b V) V {
	if anyErr(c, a, b) || !boolish(c) {
		return ERR
	}
	if c.K == Bool && c.B {
		return a
	}
	return b
}

func hashArgs(name string, args []V) uint64 {
	h := fnv.New64a()
	h.Write([]byte(name))
	for _, a := range args {
		h.Write([]byte{0})
		h.Write([]byte(a.String()))
	}
	return h.Sum64()
}

// Opaque evaluates a function the models know nothing about as a
// deterministic, practically injective function of its name and arguments.
// The result type follows the generator's naming convention: fi…→Int,
// fs…→Str, fb…→Bool, fa…→Arr, anything else →Int.
func Opaque(name string, args []V) V {
	if anyErr(args...) {
		return ERR
	}
	h := hashArgs(name, args)
	switch {
	case strings.HasPrefix(name, "fs"):
		return S(fmt.Sprintf("%s#%x", name, h%0xffff))
	case strings.HasPrefix(name, "fb"):
		return B(h%2 == 1)
	case strings.HasPrefix(name, "fa"):
		return A(I(int64(h%7)), I(int64(h/7%11)), I(int64(h/77%13)))
	}
	return I(int64(h % 100003))
}

// IsAggregate reports whether name (as written in SQL or PQL) is one of the
// aggregate functions the table engines implement.
func IsAggregate(name string) bool {
	switch strings.ToLower(name) {
	case "count", "sum", "min", "max", "avg", "countif":
		return true
	}
	return false
}

// Aggregate folds values (already filtered) with a named aggregate.
func Aggregate(name string, vals []V) V {
	if anyErr(vals...) {
		return ERR
	}
	switch strings.ToLower(name) {
	case "sum", "avg":
		var si int64
		var sf float64
		n := 0
		isF := false
		for _, v := range vals {
			switch v.K {
			case Null:
			case Int:
				si += v.I
				sf += float64(v.I)
				n++
			case Float:
				isF = true
				sf += v.F
				n++
			default:
				return ERR
			}
		}
		if n == 0 {
			return NULL
		}
		if strings.ToLower(name) == "avg" {
			return F(sf / float64(n))
		}
		if isF {
			return F(sf)
		}
		return I(si)
	case "min", "max":
		var best V
		have := false
		for _, v := range vals {
			if v.K == Null {
				continue
			}
			if !have {
				best, have = v, true
				continue
			}
			c, ok := compare(v, best, true)
			if !ok {
				return ERR
			}
			if (strings.ToLower(name) == "min" && c < 0) || (strings.ToLower(name) == "max" && c > 0) {
				best = v
			}
		}
		if !have {
			return NULL
		}
		return best
	}
	return ERR
}

// Call evaluates a scalar function by its SQL name: the few functions the
// models interpret, everything else opaque.
func Call(name string, args []V) V {
	if anyErr(args...) {
		return ERR
	}
	switch strings.ToLower(name) {
	case "coalesce", "ifnull":
		return Coalesce(args...)
	case "lower":
		if len(args) == 1 {
			return Lower(args[0])
		}
	case "upper":
		if len(args) == 1 {
			return Upper(args[0])
		}
	case "concat":
		return Concat(args...)
	case "if":
		if len(args) == 3 {
			return Case(args[0], args[1], args[2])
		}
	case "isnull":
		if len(args) == 1 {
			return IsNull(args[0])
		}
	case "isnotnull":
		if len(args) == 1 {
			return IsNotNull(args[0])
		}
	case "not":
		if len(args) == 1 {
			return Not(args[0])
		}
	case "now":
		if len(args) == 0 {
			return NOW
		}
	}
	return Opaque(name, args)
}

// Less orders values for ORDER BY within one type family; NULL handling is
// the caller's. Incomparable values order by kind then text (total order, so
// that sorting is deterministic; such sorts are not judged).
func Less(a, b V) bool {
	if c, ok := compare(a, b, true); ok {
		return c < 0
	}
	if a.K != b.K {
		return a.K < b.K
	}
	return a.String() < b.String()
}

// Comparable reports whether two non-NULL values can be ordered.
func Comparable(a, b V) bool {
	_, ok := compare(a, b, true)
	return ok
}

// SortKeyString renders a row of values as a canonical string (for multisets).
func RowString(row []V) string {
	p := make([]string, len(row))
	for i, v := range row {
		p[i] = v.String()
	}
	return strings.Join(p, " | ")
}

// SortStrings sorts in place and returns s.
func SortStrings(s []string) []string {
	sort.Strings(s)
	return s
}

// ParseNumber reads a numeric spelling (decimal, fraction, exponent, or
// 0x hexadecimal) as a value: Int for integer spellings that fit int64,
// Float otherwise.
func ParseNumber(text string) (V, bool) {
	if len(text) > 2 && text[0] == '0' && (text[1] == 'x' || text[1] == 'X') {
		u, err := strconv.ParseUint(text[2:], 16, 64)
		if err != nil {
			return ERR, false
		}
		if u <= math.MaxInt64 {
			return I(int64(u)), true
		}
		return F(float64(u)), true
	}
	if text == "" {
		return ERR, false
	}
	if !strings.ContainsAny(text, ".eE") {
		t := strings.TrimLeft(text, "0")
		if t == "" {
			t = "0"
		}
		if i, err := strconv.ParseInt(t, 10, 64); err == nil {
			return I(i), true
		}
	}
	f, err := strconv.ParseFloat(text, 64)
	if err != nil && !(math.IsInf(f, 0) || f == 0) {
		return ERR, false
	}
	if err != nil {
		if ne, ok := err.(*strconv.NumError); !ok || ne.Err != strconv.ErrRange {
			return ERR, false
		}
	}
	return F(f), true
}
