//go:build verif

package mon

import (
	_ "embed"
	"fmt"
	"runtime/debug"
	"sort"
	"strconv"
	"strings"

	"github.com/runreveal/pql"
	"github.com/runreveal/pql/parser"
)

//go:embed sites.txt
var sitesTxt string

var siteNames = map[int]string{}

func init() {
	for _, l := range strings.Split(sitesTxt, "\n") {
		f := strings.SplitN(l, "\t", 2)
		if len(f) == 2 {
			n, _ := strconv.Atoi(f[0])
			siteNames[n] = f[1]
		}
	}
}

// SiteName gives the symbolic name of a hook site.
func SiteName(s int) string {
	if n, ok := siteNames[s]; ok {
		return n
	}
	return fmt.Sprintf("site%d", s)
}

// StepBudget is the logical bound on hook steps within one API call.
var StepBudget int64 = 3_000_000

type stepOverrun struct{ site int }

var (
	steps    int64
	siteSeen [256]bool
	// HooksArmed is false in race-detector runs, where the hooks' own
	// bookkeeping must not add synchronisation or shared writes.
	hooksArmed bool
	// SplitObserver receives split decisions when set.
	SplitObserver func(prevOp string, prevSorted, prevLimited bool, op string, attached bool)
)

func hook(site int) {
	steps++
	if site >= 0 && site < len(siteSeen) {
		siteSeen[site] = true
		sigSeen[site] = true
	}
	if steps > StepBudget {
		panic(stepOverrun{site})
	}
}

// InstallHooks arms the step/site hooks (single-goroutine workers only).
func InstallHooks() {
	parser.VerifHook = hook
	pql.VerifHook = hook
	pql.VerifSplitHook = func(prevOp string, prevSorted, prevLimited bool, op string, attached bool) {
		if SplitObserver != nil {
			SplitObserver(prevOp, prevSorted, prevLimited, op, attached)
		}
	}
	hooksArmed = true
}

// FlushSites records the hook sites seen so far in the worker's evidence.
func FlushSites(w *W) {
	for i, b := range siteSeen {
		if b {
			w.SetAdd("sites_seen", SiteName(i))
		}
	}
}

// SiteSeenCount returns how many distinct hook sites have been hit.
func SiteSeenCount() int {
	n := 0
	for _, b := range siteSeen {
		if b {
			n++
		}
	}
	return n
}

// per-signature site set: sites hit since the last ResetSig
var sigSeen [256]bool

// ResetSig starts a new site signature.
func ResetSig() { sigSeen = [256]bool{} }

// Sig returns the set of hook sites hit since ResetSig as a compact key.
func Sig() string {
	var b [32]byte
	for i, v := range sigSeen {
		if v {
			b[i/8] |= 1 << (i % 8)
		}
	}
	return string(b[:])
}

// Out describes how a monitored call ended.
type Out struct {
	Panicked bool
	PanicVal string
	Stack    string
	Hung     bool // exceeded the logical step budget (non-advancing loop)
	HungSite string
	Steps    int64
	// Mutated: the call changed the parameter map it was given (description of
	// the difference); the map has been restored.
	Mutated string
}

// Anomalous reports a panic or a step overrun.
func (o Out) Anomalous() bool { return o.Panicked || o.Hung }

func (o Out) String() string {
	switch {
	case o.Hung:
		return fmt.Sprintf("no progress: more than %d steps, last site %s", StepBudget, o.HungSite)
	case o.Panicked:
		return "panic: " + o.PanicVal
	}
	return "returned"
}

func guard(o *Out) {
	o.Steps = steps
	if p := recover(); p != nil {
		if so, ok := p.(stepOverrun); ok {
			o.Hung = true
			o.HungSite = SiteName(so.site)
			return
		}
		o.Panicked = true
		o.PanicVal = fmt.Sprint(p)
		o.Stack = repoFrames(string(debug.Stack()))
	}
}

// Compile calls (*CompileOptions).Compile under the monitor. params == nil
// uses the package-level Compile.
func Compile(src string, params map[string]string) (sql string, err error, o Out) {
	steps = 0
	defer guard(&o)
	if params == nil {
		sql, err = pql.Compile(src)
		return
	}
	// the caller's map is watched: it must hold the same entries afterwards
	before := make(map[string]string, len(params))
	for k, v := range params {
		before[k] = v
	}
	defer func() {
		var diff []string
		for k, v := range params {
			if bv, ok := before[k]; !ok {
				diff = append(diff, fmt.Sprintf("added %q=%q", k, v))
			} else if bv != v {
				diff = append(diff, fmt.Sprintf("changed %q from %q to %q", k, bv, v))
			}
		}
		for k := range before {
			if _, ok := params[k]; !ok {
				diff = append(diff, fmt.Sprintf("removed %q", k))
			}
		}
		if len(diff) > 0 {
			sort.Strings(diff)
			o.Mutated = strings.Join(diff, ", ")
			for k := range params {
				delete(params, k)
			}
			for k, v := range before {
				params[k] = v
			}
		}
	}()
	sql, err = (&pql.CompileOptions{Parameters: params}).Compile(src)
	return
}

// CompileZero calls (&CompileOptions{}).Compile: non-nil options whose
// parameter map is nil.
func CompileZero(src string) (sql string, err error, o Out) {
	steps = 0
	defer guard(&o)
	sql, err = (&pql.CompileOptions{}).Compile(src)
	return
}

// Parse calls parser.Parse under the monitor.
func Parse(src string) (stmts []parser.Statement, err error, o Out) {
	steps = 0
	defer guard(&o)
	stmts, err = parser.Parse(src)
	return
}

// Scan calls parser.Scan under the monitor.
func Scan(src string) (toks []parser.Token, o Out) {
	steps = 0
	defer guard(&o)
	toks = parser.Scan(src)
	return
}

// Split calls parser.SplitStatements under the monitor.
func Split(src string) (parts []string, o Out) {
	steps = 0
	defer guard(&o)
	parts = parser.SplitStatements(src)
	return
}

// Walk calls parser.Walk under the monitor.
func Walk(n parser.Node, visit func(parser.Node) bool) (o Out) {
	steps = 0
	defer guard(&o)
	parser.Walk(n, visit)
	return
}

// Guarded runs an arbitrary function over pql values (Span methods,
// accessors) under the monitor.
func Guarded(fn func()) (o Out) {
	steps = 0
	defer guard(&o)
	fn()
	return
}

// repoFrames keeps the stack frames that belong to the code under test.
func repoFrames(st string) string {
	lines := strings.Split(st, "\n")
	var out []string
	for i := 0; i+1 < len(lines) && len(out) < 16; i++ {
		if strings.HasPrefix(lines[i], "github.com/runreveal/pql") {
			out = append(out, "      "+lines[i], "      "+strings.TrimSpace(lines[i+1]))
		}
	}
	return strings.Join(out, "\n")
}
