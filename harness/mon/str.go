package mon

import (
	"encoding/base64"
	"encoding/json"
	"unicode/utf8"
)

// Str is a string that survives JSON byte for byte: valid UTF-8 is written as
// a JSON string, anything else as {"b64": …} (encoding/json would replace
// invalid bytes by U+FFFD and a replay would run a different input).
type Str string

func (s Str) MarshalJSON() ([]byte, error) {
	if utf8.ValidString(string(s)) {
		return json.Marshal(string(s))
	}
	return json.Marshal(map[string]string{"b64": base64.StdEncoding.EncodeToString([]byte(s))})
}

func (s *Str) UnmarshalJSON(b []byte) error {
	var plain string
	if err := json.Unmarshal(b, &plain); err == nil {
		*s = Str(plain)
		return nil
	}
	var obj map[string]string
	if err := json.Unmarshal(b, &obj); err != nil {
		return err
	}
	raw, err := base64.StdEncoding.DecodeString(obj["b64"])
	if err != nil {
		return err
	}
	*s = Str(raw)
	return nil
}
