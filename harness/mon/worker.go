// Package mon is the common monitoring machinery: worker processes that
// execute cases against the real pql code under instrumentation, the
// coordinator that shards work over workers and survives their death, the
// evidence writer and the known-findings matcher.
package mon

import (
	"encoding/json"
	"fmt"
	"hash/fnv"
	"os"
	"path/filepath"
	"runtime"
	"runtime/debug"
	"sort"
	"strconv"
	"sync/atomic"
	"syscall"
	"time"
)

// Config describes one worker's share of a check.
type Config struct {
	Prop    string
	Tier    string // quick | thorough
	Seed    int64
	Shard   int
	NShards int
	Resume  int64 // skip owned cases with index <= Resume
	OutDir  string
	// CaseCPUBudget is the CPU time one case may use before the in-worker
	// watchdog gives up on it (seconds).
	CaseCPUBudget float64
	// HeapBudget, when non-zero, is the live heap (bytes) one case may reach.
	HeapBudget    uint64
	MaxViolations int
}

// Violation is a refuted case with everything needed to replay it.
type Violation struct {
	Key      string          `json:"key"`
	Msg      string          `json:"msg"`
	KnownKey string          `json:"known_key,omitempty"`
	Case     json.RawMessage `json:"case,omitempty"`
}

// Result is what one worker observed.
type Result struct {
	Evaluations  int64            `json:"evaluations"`
	Nontrivial   int64            `json:"nontrivial"`
	Skipped      int64            `json:"skipped_resume"`
	Inconclusive map[string]int64 `json:"inconclusive"`
	Counters     map[string]int64 `json:"counters"`
	Max          map[string]int64 `json:"max"`
	Sets         map[string][]string
	Samples      []any       `json:"samples"`
	Violations   []Violation `json:"violations"`
	LastIdx      int64       `json:"last_idx"`
	Complete     bool        `json:"complete"`
	HarnessError string      `json:"harness_error,omitempty"`
	OwnedHashes  []uint64    `json:"owned_hashes,omitempty"`
}

// W is a worker: it owns the cases whose key hashes to its shard.
type W struct {
	Config
	idx     int64
	seen    map[uint64]struct{}
	res     Result
	sets    map[string]map[string]struct{}
	prog    *os.File
	stopped bool
	// hashes of non-trivial cases run via DoOwned that another shard might
	// also have produced
	ownedHashes []uint64
	slowest     string

	// watchdog state
	caseStartCPU atomic.Int64 // ns of process CPU at case start; 0 = idle
	curIdx       atomic.Int64
	samplesMax   int
}

// R is the recorder handed to the oracle of one case.
type R struct {
	w          *W
	key        string
	nontrivial bool
	viol       *Violation
	inconcl    string
	sample     any
	// Case is marshalled into the replay file when a violation is recorded.
	Case any
}

func hashKey(s string) uint64 {
	h := fnv.New64a()
	h.Write([]byte(s))
	return h.Sum64()
}

// LimitMemory caps the address space of this process so that an input that
// makes the code under test allocate without bound kills the worker (a
// recorded event) rather than the machine.
func LimitMemory(bytes uint64) {
	lim := syscall.Rlimit{Cur: bytes, Max: bytes}
	syscall.Setrlimit(syscall.RLIMIT_AS, &lim)
}

// NewWorker prepares a worker and starts its watchdog.
func NewWorker(cfg Config) *W {
	if cfg.NShards <= 0 {
		cfg.NShards = 1
	}
	if cfg.CaseCPUBudget <= 0 {
		cfg.CaseCPUBudget = 40
	}
	if cfg.MaxViolations <= 0 {
		cfg.MaxViolations = 5
	}
	w := &W{Config: cfg, seen: map[uint64]struct{}{}, sets: map[string]map[string]struct{}{}, samplesMax: 4}
	w.res.Inconclusive = map[string]int64{}
	w.res.Counters = map[string]int64{}
	w.res.Max = map[string]int64{}
	if cfg.OutDir != "" {
		f, err := os.OpenFile(filepath.Join(cfg.OutDir, fmt.Sprintf("progress.%d", cfg.Shard)), os.O_CREATE|os.O_RDWR|os.O_TRUNC, 0o644)
		if err == nil {
			w.prog = f
		}
		go w.watchdog()
	}
	return w
}

func processCPU() int64 {
	var ru syscall.Rusage
	if err := syscall.Getrusage(syscall.RUSAGE_SELF, &ru); err != nil {
		return time.Now().UnixNano()
	}
	return ru.Utime.Nano() + ru.Stime.Nano()
}

func (w *W) watchdog() {
	for {
		time.Sleep(250 * time.Millisecond)
		st := w.caseStartCPU.Load()
		if st == 0 {
			continue
		}
		if w.HeapBudget > 0 {
			var ms runtime.MemStats
			runtime.ReadMemStats(&ms)
			if ms.HeapAlloc <= w.HeapBudget && ms.HeapSys > 3*w.HeapBudget {
				// address space that earlier cases needed for a moment is still
				// mapped: start afresh before the process limit is met by a case
				// that has nothing to do with it
				idx := w.curIdx.Load()
				os.WriteFile(filepath.Join(w.OutDir, fmt.Sprintf("timeout.%d", w.Shard)),
					[]byte(fmt.Sprintf("%d heapsys=%d code=5\n", idx, ms.HeapSys)), 0o644)
				w.res.LastIdx = idx
				w.dump()
				os.Exit(5)
			}
			if ms.HeapAlloc > w.HeapBudget {
				// whose memory is it? The harness keeps state of its own (the set of
				// cases seen, a mutation corpus). Collect, look again a little later:
				// only a case that is still the open one and still holds the memory is
				// blamed (exit 4, and the coordinator re-runs it alone before it
				// believes that); otherwise the worker just asks to be restarted with a
				// fresh heap (exit 5).
				idx := w.curIdx.Load()
				runtime.GC()
				time.Sleep(250 * time.Millisecond)
				runtime.ReadMemStats(&ms)
				if ms.HeapAlloc <= w.HeapBudget && w.curIdx.Load() != idx {
					continue
				}
				code := 4
				if w.curIdx.Load() != idx {
					code = 5
					idx = w.curIdx.Load()
				}
				os.WriteFile(filepath.Join(w.OutDir, fmt.Sprintf("timeout.%d", w.Shard)),
					[]byte(fmt.Sprintf("%d heap=%d code=%d\n", idx, ms.HeapAlloc, code)), 0o644)
				w.res.LastIdx = idx
				w.dump()
				os.Exit(code)
			}
		}
		used := float64(processCPU()-st) / 1e9
		if used > w.CaseCPUBudget {
			// The main goroutine is stuck inside the code under test; it is
			// not touching w.res, so dumping it from here is safe enough.
			idx := w.curIdx.Load()
			os.WriteFile(filepath.Join(w.OutDir, fmt.Sprintf("timeout.%d", w.Shard)),
				[]byte(fmt.Sprintf("%d cpu=%.1f\n", idx, used)), 0o644)
			w.res.LastIdx = idx
			w.dump()
			os.Exit(3)
		}
	}
}

// Stopped reports whether the worker has collected enough violations and
// generators may stop early.
func (w *W) Stopped() bool { return w.stopped }

// Quick reports whether the tier is quick.
func (w *W) Quick() bool { return w.Tier != "thorough" }

// Pick returns q in the quick tier and t in the thorough tier.
func (w *W) Pick(q, t int) int {
	if w.Quick() {
		return q
	}
	if t >= 1000 {
		// a budget (a number of seeded cases), not a size: the thorough tier
		// multiplies it (VERIF_DEPTH, default 3)
		return t * thoroughDepth
	}
	return t
}

var thoroughDepth = func() int {
	if v, err := strconv.Atoi(os.Getenv("VERIF_DEPTH")); err == nil && v >= 1 && v <= 100 {
		return v
	}
	return 3
}()

// Owns reports whether this worker owns key (without marking it seen).
func (w *W) Owns(key string) bool {
	return hashKey(key)%uint64(w.NShards) == uint64(w.Shard)
}

// Do runs fn as one case if this shard owns key and has not seen it before.
// It is meant for generators that produce the same stream in every worker.
func (w *W) Do(key string, fn func(r *R)) { w.do(key, fn, false) }

// DoOwned runs fn as one case of a stream that only this worker generates
// (seeded with the shard number). Duplicates across workers are removed from
// the distinct count by the coordinator.
func (w *W) DoOwned(key string, fn func(r *R)) { w.do(key, fn, true) }

func (w *W) do(key string, fn func(r *R), owned bool) {
	if w.stopped {
		return
	}
	h := hashKey(key)
	if !owned && h%uint64(w.NShards) != uint64(w.Shard) {
		return
	}
	if _, dup := w.seen[h]; dup {
		return
	}
	w.seen[h] = struct{}{}
	w.idx++
	if w.idx <= w.Resume {
		w.res.Skipped++
		return
	}
	w.markProgress(key)
	r := &R{w: w, key: key}
	w.curIdx.Store(w.idx)
	w.caseStartCPU.Store(processCPU() | 1)
	func() {
		defer func() {
			if p := recover(); p != nil {
				// A panic that escaped the boundary wrappers is a defect of
				// the harness (or an unwrapped call), never a verdict.
				w.res.HarnessError = fmt.Sprintf("panic in oracle for key %q: %v\n%s", clip(key, 200), p, debug.Stack())
				w.stopped = true
			}
		}()
		fn(r)
	}()
	if st := w.caseStartCPU.Load(); st != 0 {
		if ms := (processCPU() - st) / 1e6; ms > w.res.Max["case_cpu_ms"] {
			w.res.Max["case_cpu_ms"] = ms
			w.slowest = clip(key, 120)
		}
	}
	w.caseStartCPU.Store(0)
	w.res.LastIdx = w.idx
	switch {
	case r.viol != nil:
		if r.Case != nil && r.viol.Case == nil {
			if b, err := json.Marshal(r.Case); err == nil {
				r.viol.Case = b
			}
		}
		w.res.Violations = append(w.res.Violations, *r.viol)
		if len(w.res.Violations) >= w.MaxViolations {
			w.stopped = true
		}
	case r.inconcl != "":
		w.res.Inconclusive[r.inconcl]++
	default:
		w.res.Evaluations++
		if r.nontrivial {
			w.res.Nontrivial++
			if owned && h%uint64(w.NShards) != uint64(w.Shard) {
				w.ownedHashes = append(w.ownedHashes, h)
			}
			if r.sample != nil && len(w.res.Samples) < w.samplesMax {
				w.res.Samples = append(w.res.Samples, r.sample)
			}
		}
	}
}

func clip(s string, n int) string {
	if len(s) > n {
		return s[:n] + "…"
	}
	return s
}

func (w *W) markProgress(key string) {
	if w.prog == nil {
		return
	}
	rec := fmt.Sprintf("%d\t%q\n", w.idx, clip(key, 3500))
	buf := make([]byte, 4096)
	for i := range buf {
		buf[i] = ' '
	}
	copy(buf, rec)
	buf[len(buf)-1] = '\n'
	w.prog.WriteAt(buf, 0)
}

// Nontrivial marks the case as non-trivial by the property's rule.
func (r *R) Nontrivial() { r.nontrivial = true }

// Sample proposes a sample for the evidence file (kept for the first few
// non-trivial decided cases).
func (r *R) Sample(v any) { r.sample = v }

// Violation records a refutation. knownKey is the stable witness key matched
// against known-findings.txt ("" = none).
func (r *R) Violation(knownKey, format string, args ...any) {
	if r.viol != nil {
		return
	}
	r.viol = &Violation{Key: r.key, Msg: fmt.Sprintf(format, args...), KnownKey: knownKey}
}

// Violated reports whether a violation was recorded for this case.
func (r *R) Violated() bool { return r.viol != nil }

// Inconclusive marks the case as not decided, with a reason class.
func (r *R) Inconclusive(reason string) {
	if r.inconcl == "" {
		r.inconcl = reason
	}
}

// Count adds to a named counter in the evidence.
func (r *R) Count(name string, n int64) { r.w.res.Counters[name] += n }

// MaxOf keeps the maximum of a named measure.
func (r *R) MaxOf(name string, v int64) {
	if v > r.w.res.Max[name] {
		r.w.res.Max[name] = v
	}
}

// SetAdd adds an element to a named set in the evidence.
func (r *R) SetAdd(set, elem string) { r.w.SetAdd(set, elem) }

// W returns the worker (tier, seed).
func (r *R) W() *W { return r.w }

func (w *W) SetAdd(set, elem string) {
	m := w.sets[set]
	if m == nil {
		m = map[string]struct{}{}
		w.sets[set] = m
	}
	m[elem] = struct{}{}
}

func (w *W) Count(name string, n int64) { w.res.Counters[name] += n }

func (w *W) dump() {
	if w.OutDir == "" {
		return
	}
	w.res.Sets = map[string][]string{}
	for k, m := range w.sets {
		var l []string
		for e := range m {
			l = append(l, e)
		}
		sort.Strings(l)
		w.res.Sets[k] = l
	}
	w.res.OwnedHashes = w.ownedHashes
	b, _ := json.Marshal(&w.res)
	name := fmt.Sprintf("result.%d.%d.json", w.Shard, w.Resume)
	os.WriteFile(filepath.Join(w.OutDir, name), b, 0o644)
}

// Finish writes the worker's result file.
func (w *W) Finish() {
	if w.slowest != "" {
		w.SetAdd("slowest_case_per_worker", fmt.Sprintf("%dms %q", w.res.Max["case_cpu_ms"], w.slowest))
	}
	w.res.Complete = !w.stopped || w.res.HarnessError == ""
	FlushSites(w)
	w.dump()
}

// Result exposes the result for in-process use (replay).
func (w *W) Result() *Result { return &w.res }
