package mon

import (
	"bufio"
	"bytes"
	"encoding/json"
	"fmt"
	"os"
	"os/exec"
	"path/filepath"
	"sort"
	"strconv"
	"strings"
	"sync"
	"time"
)

// Prop is what a property package registers.
type Prop struct {
	ID string
	// Generate emits every case of the tier via w.Do.
	Generate func(w *W)
	// Replay re-checks one recorded case.
	Replay func(raw json.RawMessage, r *R)
	// Rule is the evidence text: how cases are generated, what is non-trivial.
	Rule string
	// Floor is the minimum number of decided cases per tier below which the
	// run is a broken check.
	FloorQuick, FloorThorough int64
	// AnomalyIsViolation: a worker that dies or overruns its CPU budget inside
	// a case refutes this property (C12); otherwise it is a foreign anomaly.
	AnomalyIsViolation bool
	// AnomalyKnownKey maps the key of such a case to a known-finding key.
	AnomalyKnownKey func(key string) string
	Assumptions     []string
	CaseCPUBudget   float64
	HeapBudget      uint64
	// Custom, when set, replaces the sharded worker scheme: it runs in the
	// coordinator process itself and must not call pql code in-process.
	Custom func(c *Custom)
	// CustomReplay re-runs one recorded case of a Custom check.
	CustomReplay func(c *Custom, raw json.RawMessage)
	// ShardsQuick / ShardsThorough override the number of worker processes.
	ShardsQuick, ShardsThorough int
	// Race: workers use the race-detector build (vmon-race).
	Race bool
}

var registry = map[string]*Prop{}

// Subcommands are extra entry points of the binary (child processes of
// process-level checks).
var Subcommands = map[string]func(args []string){}

func Register(p *Prop) { registry[p.ID] = p }
func Lookup(id string) *Prop {
	return registry[strings.ToUpper(id)]
}
func IDs() []string {
	var l []string
	for k := range registry {
		l = append(l, k)
	}
	sort.Strings(l)
	return l
}

// VerifDir is the root of the verification tree (VERIF_DIR, default /verif).
func VerifDir() string {
	if d := os.Getenv("VERIF_DIR"); d != "" {
		return d
	}
	return "/verif"
}

type knownFinding struct {
	prop, key, text string
}

func loadKnown() []knownFinding {
	var out []knownFinding
	f, err := os.Open(filepath.Join(VerifDir(), "known-findings.txt"))
	if err != nil {
		return nil
	}
	defer f.Close()
	sc := bufio.NewScanner(f)
	for sc.Scan() {
		l := strings.TrimSpace(sc.Text())
		if !strings.HasPrefix(l, "known:") {
			continue
		}
		rest := strings.TrimSpace(strings.TrimPrefix(l, "known:"))
		kf := knownFinding{}
		fields := strings.Fields(rest)
		var text []string
		for _, f := range fields {
			switch {
			case strings.HasPrefix(f, "property=") && kf.prop == "":
				kf.prop = strings.TrimPrefix(f, "property=")
			case strings.HasPrefix(f, "key=") && kf.key == "":
				kf.key = strings.TrimPrefix(f, "key=")
			default:
				text = append(text, f)
			}
		}
		kf.text = strings.Join(text, " ")
		if kf.prop != "" && kf.key != "" {
			out = append(out, kf)
		}
	}
	return out
}

// Merged is the union of all workers' results.
type Merged struct {
	Result
	sets           map[string]map[string]struct{}
	Foreign        []string
	LostSegments   int
	Restarts       int
	HeapRestarts   int
	WallS          float64
	Shards         int
	harnessErrors  []string
	anomalyViol    []Violation
	inconclAnomaly int
	ownedSeen      map[uint64]struct{}
}

func (m *Merged) add(r *Result) {
	m.Evaluations += r.Evaluations
	m.Nontrivial += r.Nontrivial
	for k, v := range r.Inconclusive {
		m.Inconclusive[k] += v
	}
	for k, v := range r.Counters {
		m.Counters[k] += v
	}
	for k, v := range r.Max {
		if v > m.Max[k] {
			m.Max[k] = v
		}
	}
	for k, l := range r.Sets {
		s := m.sets[k]
		if s == nil {
			s = map[string]struct{}{}
			m.sets[k] = s
		}
		for _, e := range l {
			s[e] = struct{}{}
		}
	}
	if len(m.Samples) < 8 {
		for _, s := range r.Samples {
			if len(m.Samples) < 8 {
				m.Samples = append(m.Samples, s)
			}
		}
	}
	m.Violations = append(m.Violations, r.Violations...)
	for _, h := range r.OwnedHashes {
		if m.ownedSeen == nil {
			m.ownedSeen = map[uint64]struct{}{}
		}
		if _, dup := m.ownedSeen[h]; dup {
			m.Nontrivial--
			m.Counters["cross_shard_duplicates_removed"]++
		}
		m.ownedSeen[h] = struct{}{}
	}
	if r.HarnessError != "" {
		m.harnessErrors = append(m.harnessErrors, r.HarnessError)
	}
}

// Run is the coordinator: it executes the check and returns the process exit
// status (0 held, 1 violation, 2 broken check).
func Run(p *Prop, tier string, seed int64, self string) int {
	t0 := time.Now()
	vd := VerifDir()
	runDir := filepath.Join(vd, ".run", fmt.Sprintf("%s-%d", p.ID, os.Getpid()))
	os.MkdirAll(runDir, 0o755)
	defer os.RemoveAll(runDir)
	os.MkdirAll(filepath.Join(vd, "evidence"), 0o755)

	m := &Merged{sets: map[string]map[string]struct{}{}}
	m.Inconclusive = map[string]int64{}
	m.Counters = map[string]int64{}
	m.Max = map[string]int64{}

	if p.Custom != nil {
		c := &Custom{Prop: p, Tier: tier, Seed: seed, Dir: runDir, Self: self, m: m}
		p.Custom(c)
	} else {
		nsh := p.ShardsQuick
		if tier == "thorough" {
			nsh = p.ShardsThorough
		}
		if nsh == 0 {
			nsh = 8
			if tier == "thorough" {
				nsh = 16
			}
		}
		if s := os.Getenv("VERIF_SHARDS"); s != "" {
			if n, err := strconv.Atoi(s); err == nil && n > 0 {
				nsh = n
			}
		}
		m.Shards = nsh
		var mu sync.Mutex
		var wg sync.WaitGroup
		for sh := 0; sh < nsh; sh++ {
			wg.Add(1)
			go func(sh int) {
				defer wg.Done()
				runShard(p, tier, seed, sh, nsh, runDir, self, m, &mu)
			}(sh)
		}
		wg.Wait()
	}
	m.WallS = time.Since(t0).Seconds()
	return conclude(p, tier, seed, m)
}

func wallLimit(tier string) time.Duration {
	if s := os.Getenv("VERIF_WALL_LIMIT_S"); s != "" {
		if n, err := strconv.Atoi(s); err == nil {
			return time.Duration(n) * time.Second
		}
	}
	if tier == "thorough" {
		return 3 * time.Hour
	}
	return 20 * time.Minute
}

func runShard(p *Prop, tier string, seed int64, sh, nsh int, dir, self string, m *Merged, mu *sync.Mutex) {
	resume := int64(0)
	for attempt := 0; attempt < 40; attempt++ {
		args := []string{"worker", p.ID, "--tier", tier, "--seed", strconv.FormatInt(seed, 10),
			"--shard", strconv.Itoa(sh), "--nshards", strconv.Itoa(nsh), "--resume", strconv.FormatInt(resume, 10), "--out", dir}
		cmd := exec.Command(self, args...)
		var stderr bytes.Buffer
		cmd.Stderr = &stderr
		cmd.Stdout = &stderr
		if err := cmd.Start(); err != nil {
			mu.Lock()
			m.harnessErrors = append(m.harnessErrors, "cannot start worker: "+err.Error())
			mu.Unlock()
			return
		}
		done := make(chan error, 1)
		go func() { done <- cmd.Wait() }()
		var err error
		killed := false
		select {
		case err = <-done:
		case <-time.After(wallLimit(tier)):
			cmd.Process.Kill()
			err = <-done
			killed = true
		}
		resFile := filepath.Join(dir, fmt.Sprintf("result.%d.%d.json", sh, resume))
		var res Result
		haveRes := false
		if b, e := os.ReadFile(resFile); e == nil {
			if json.Unmarshal(b, &res) == nil {
				haveRes = true
			}
		}
		mu.Lock()
		if haveRes {
			m.add(&res)
		}
		mu.Unlock()
		if err == nil {
			if !haveRes {
				mu.Lock()
				m.harnessErrors = append(m.harnessErrors, fmt.Sprintf("shard %d: worker exited 0 without a result file", sh))
				mu.Unlock()
			}
			return
		}
		// The worker died, was stopped by its watchdog, or was killed by the
		// wall-clock guard. Identify the open case.
		idx, key := readProgress(filepath.Join(dir, fmt.Sprintf("progress.%d", sh)))
		kind := "crash"
		if ee, ok := err.(*exec.ExitError); ok && ee.ExitCode() == 3 {
			kind = "cpu-timeout"
		} else if ok && ee.ExitCode() == 4 {
			kind = "heap-limit"
		} else if ok && ee.ExitCode() == 5 {
			kind = "harness-heap"
		}
		if killed {
			kind = "wall-clock"
		}
		tail := stderr.String()
		if len(tail) > 1500 {
			tail = tail[:700] + "\n…\n" + tail[len(tail)-700:]
		}
		if p.AnomalyIsViolation && kind == "cpu-timeout" && !confirmSolo(p, key, dir, self, sh) {
			kind = "slow-unconfirmed"
		}
		if p.AnomalyIsViolation && (kind == "heap-limit" || kind == "crash") && !confirmSolo(p, key, dir, self, sh) {
			// the case alone, in a fresh process, stays within the heap budget and
			// does not take the process down: the memory was the worker's own, left
			// behind by the cases before it
			kind = "harness-heap"
		}
		mu.Lock()
		m.Restarts++
		if !haveRes {
			m.LostSegments++
		}
		switch {
		case kind == "slow-unconfirmed":
			m.Inconclusive["slow_unconfirmed"]++
			m.Foreign = append(m.Foreign, fmt.Sprintf("%s idx=%d key=%q", kind, idx, clip(key, 200)))
		case kind == "harness-heap":
			// nothing is concluded about any case: the worker is restarted after
			// the case it had open (which the solo run, if any, has decided)
			m.HeapRestarts++
		case kind == "wall-clock":
			m.Inconclusive["wall_clock_guard"]++
			m.Foreign = append(m.Foreign, fmt.Sprintf("%s idx=%d key=%q", kind, idx, clip(key, 200)))
		case p.AnomalyIsViolation:
			kk := ""
			if p.AnomalyKnownKey != nil {
				kk = p.AnomalyKnownKey(key)
			}
			cj, _ := json.Marshal(Str(key))
			m.anomalyViol = append(m.anomalyViol, Violation{Key: key, KnownKey: kk, Case: cj,
				Msg: fmt.Sprintf("worker %s while executing this case (%s)", kind, clip(tail, 600))})
		default:
			m.Inconclusive["foreign_"+kind]++
			m.Foreign = append(m.Foreign, fmt.Sprintf("%s idx=%d key=%q", kind, idx, clip(key, 200)))
		}
		stop := len(m.anomalyViol) >= 3 || kind == "wall-clock"
		mu.Unlock()
		if stop || idx <= resume {
			if idx <= resume && !stop {
				mu.Lock()
				m.harnessErrors = append(m.harnessErrors, fmt.Sprintf("shard %d: worker died (%s) before making progress: %s", sh, kind, tail))
				mu.Unlock()
			}
			return
		}
		resume = idx
	}
}

// confirmSolo re-runs one case alone in a fresh worker (with its watchdog)
// and reports whether it again fails to finish within the CPU budget.
func confirmSolo(p *Prop, key, dir, self string, sh int) bool {
	rf := filepath.Join(dir, fmt.Sprintf("confirm.%d.json", sh))
	cj, _ := json.Marshal(Str(key))
	b, _ := json.Marshal(map[string]any{"key": Str(key), "case": json.RawMessage(cj)})
	os.WriteFile(rf, b, 0o644)
	cmd := exec.Command(self, "worker", p.ID, "--replay", rf, "--out", dir, "--shard", strconv.Itoa(1000+sh))
	done := make(chan error, 1)
	if err := cmd.Start(); err != nil {
		return true
	}
	go func() { done <- cmd.Wait() }()
	select {
	case err := <-done:
		return err != nil
	case <-time.After(30 * time.Minute):
		cmd.Process.Kill()
		<-done
		return false
	}
}

func readProgress(path string) (int64, string) {
	b, err := os.ReadFile(path)
	if err != nil {
		return 0, ""
	}
	line := strings.TrimRight(string(b), " \n")
	f := strings.SplitN(line, "\t", 2)
	if len(f) != 2 {
		return 0, ""
	}
	idx, _ := strconv.ParseInt(f[0], 10, 64)
	key, err := strconv.Unquote(f[1])
	if err != nil {
		key = f[1]
	}
	return idx, key
}

// Evidence is the file written per run.
type Evidence struct {
	PropertyID  string         `json:"property_id"`
	Tier        string         `json:"tier"`
	Seed        int64          `json:"seed"`
	Level       string         `json:"level"`
	Coverage    map[string]any `json:"coverage"`
	Assumptions []string       `json:"assumptions"`
	WallS       float64        `json:"wall_s"`
	Violations  int            `json:"violations"`
}

func conclude(p *Prop, tier string, seed int64, m *Merged) int {
	vd := VerifDir()
	known := loadKnown()
	isKnown := func(kk string) *knownFinding {
		if kk == "" {
			return nil
		}
		for i := range known {
			if known[i].prop == p.ID && known[i].key == kk {
				return &known[i]
			}
		}
		return nil
	}
	all := append([]Violation{}, m.Violations...)
	all = append(all, m.anomalyViol...)
	sort.SliceStable(all, func(i, j int) bool { return all[i].Key < all[j].Key })
	knownHit := map[string]int{}
	var real []Violation
	for _, v := range all {
		if kf := isKnown(v.KnownKey); kf != nil {
			knownHit[kf.key]++
			continue
		}
		real = append(real, v)
	}
	var knownKeys []string
	for k := range knownHit {
		knownKeys = append(knownKeys, k)
	}
	sort.Strings(knownKeys)
	for _, k := range knownKeys {
		kf := isKnown(k)
		fmt.Printf("KNOWN-FINDING: property=%s key=%s %s (reproduced %d×)\n", p.ID, k, kf.text, knownHit[k])
	}

	cov := map[string]any{
		"evaluations":         m.Evaluations,
		"distinct_nontrivial": m.Nontrivial,
		"rule":                p.Rule + " The directed families added while validating against independently seeded changes (DESIGN.md section 10) run in every tier as well; the counters and sets of this file show what they covered.",
		"samples":             m.Samples,
		"exhaustive":          false,
		"inconclusive":        m.Inconclusive,
		"counters":            m.Counters,
		"max":                 m.Max,
		"worker_processes":    m.Shards,
		"worker_restarts":     m.Restarts,
		"lost_segments":       m.LostSegments,
		"heap_restarts":       m.HeapRestarts,
		"known_findings_hit":  knownHit,
	}
	if len(m.Foreign) > 0 {
		f := m.Foreign
		if len(f) > 20 {
			f = f[:20]
		}
		cov["foreign_anomalies"] = f
	}
	for k, s := range m.sets {
		var l []string
		for e := range s {
			l = append(l, e)
		}
		sort.Strings(l)
		cov[k+"_count"] = len(l)
		if len(l) > 400 {
			l = append(l[:400:400], fmt.Sprintf("… (%d more)", len(l)-400))
		}
		cov[k] = l
	}
	if m.Samples == nil {
		cov["samples"] = []any{}
	}
	ev := Evidence{PropertyID: p.ID, Tier: tier, Seed: seed, Level: "exploration", Coverage: cov,
		Assumptions: p.Assumptions, WallS: m.WallS, Violations: len(real)}
	if ev.Assumptions == nil {
		ev.Assumptions = []string{}
	}
	b, _ := json.MarshalIndent(&ev, "", " ")
	evDir := filepath.Join(vd, "evidence")
	if d := os.Getenv("VERIF_EVIDENCE_DIR"); d != "" {
		// self-tests against modified copies must not overwrite the evidence of the real tree
		evDir = d
		os.MkdirAll(evDir, 0o755)
	}
	evPath := filepath.Join(evDir, p.ID+".json")
	os.WriteFile(evPath, append(b, '\n'), 0o644)

	fmt.Printf("%s tier=%s seed=%d: decided=%d nontrivial=%d inconclusive=%v violations=%d known=%d wall=%.1fs\n",
		p.ID, tier, seed, m.Evaluations, m.Nontrivial, m.Inconclusive, len(real), len(knownHit), m.WallS)

	if len(real) > 0 {
		rd := filepath.Join(vd, "replays", p.ID)
		os.MkdirAll(rd, 0o755)
		shown := 0
		for _, v := range real {
			if shown >= 5 {
				break
			}
			shown++
			name := fmt.Sprintf("%s-%016x.json", tier, hashKey(v.Key))
			path := filepath.Join(rd, name)
			rb, _ := json.MarshalIndent(map[string]any{"property": p.ID, "seed": seed, "tier": tier, "key": Str(v.Key), "msg": v.Msg, "case": v.Case}, "", " ")
			os.WriteFile(path, append(rb, '\n'), 0o644)
			fmt.Printf("  witness: %s\n    %s\n", strconv.Quote(clip(v.Key, 300)), clip(v.Msg, 1200))
			fmt.Printf("VIOLATION property=%s replay=%s\n", p.ID, path)
		}
		return 1
	}
	if len(m.harnessErrors) > 0 {
		for _, e := range m.harnessErrors {
			fmt.Printf("CHECK-ERROR property=%s %s\n", p.ID, clip(e, 2000))
		}
		return 2
	}
	floor := p.FloorQuick
	if tier == "thorough" {
		floor = p.FloorThorough
	}
	if m.Evaluations < floor || m.Nontrivial < 2 {
		fmt.Printf("CHECK-ERROR property=%s decided cases %d (non-trivial %d) below the floor %d: the monitor observed too little\n", p.ID, m.Evaluations, m.Nontrivial, floor)
		return 2
	}
	return 0
}

// Custom is the context of a coordinator-side check (process-level
// properties such as the CLI, or the race check).
type Custom struct {
	Prop *Prop
	Tier string
	Seed int64
	Dir  string
	Self string
	m    *Merged
	mu   sync.Mutex
}

func (c *Custom) Quick() bool { return c.Tier != "thorough" }
func (c *Custom) Decided(nontrivial bool, sample any) {
	c.mu.Lock()
	defer c.mu.Unlock()
	c.m.Evaluations++
	if nontrivial {
		c.m.Nontrivial++
		if sample != nil && len(c.m.Samples) < 6 {
			c.m.Samples = append(c.m.Samples, sample)
		}
	}
}
func (c *Custom) Violation(key, knownKey, msg string, cs any) {
	c.mu.Lock()
	defer c.mu.Unlock()
	b, _ := json.Marshal(cs)
	c.m.Violations = append(c.m.Violations, Violation{Key: key, KnownKey: knownKey, Msg: msg, Case: b})
}
func (c *Custom) ViolationCount() int {
	c.mu.Lock()
	defer c.mu.Unlock()
	return len(c.m.Violations)
}
func (c *Custom) Inconclusive(reason string) {
	c.mu.Lock()
	defer c.mu.Unlock()
	c.m.Inconclusive[reason]++
}
func (c *Custom) Count(name string, n int64) {
	c.mu.Lock()
	defer c.mu.Unlock()
	c.m.Counters[name] += n
}
func (c *Custom) MaxOf(name string, n int64) {
	c.mu.Lock()
	defer c.mu.Unlock()
	if n > c.m.Max[name] {
		c.m.Max[name] = n
	}
}
func (c *Custom) SetAdd(set, elem string) {
	c.mu.Lock()
	defer c.mu.Unlock()
	s := c.m.sets[set]
	if s == nil {
		s = map[string]struct{}{}
		c.m.sets[set] = s
	}
	s[elem] = struct{}{}
}
func (c *Custom) HarnessError(msg string) {
	c.mu.Lock()
	defer c.mu.Unlock()
	c.m.harnessErrors = append(c.m.harnessErrors, msg)
}
func (c *Custom) SetShards(n int) { c.m.Shards = n }

// RunCustomReplay re-runs one recorded case of a coordinator-side check and
// returns the exit status.
func RunCustomReplay(p *Prop, raw json.RawMessage, self, replayPath string) int {
	vd := VerifDir()
	runDir := filepath.Join(vd, ".run", fmt.Sprintf("%s-replay-%d", p.ID, os.Getpid()))
	os.MkdirAll(runDir, 0o755)
	defer os.RemoveAll(runDir)
	m := &Merged{sets: map[string]map[string]struct{}{}}
	m.Inconclusive = map[string]int64{}
	m.Counters = map[string]int64{}
	m.Max = map[string]int64{}
	c := &Custom{Prop: p, Tier: "quick", Seed: 1, Dir: runDir, Self: self, m: m}
	p.CustomReplay(c, raw)
	if len(m.harnessErrors) > 0 {
		fmt.Println("CHECK-ERROR", m.harnessErrors[0])
		return 2
	}
	if len(m.Violations) > 0 {
		fmt.Printf("  witness: %s\n    %s\n", strconv.Quote(clip(m.Violations[0].Key, 300)), clip(m.Violations[0].Msg, 1500))
		fmt.Printf("VIOLATION property=%s replay=%s\n", p.ID, replayPath)
		return 1
	}
	fmt.Printf("%s replay: held (decided=%d inconclusive=%v)\n", p.ID, m.Evaluations, m.Inconclusive)
	return 0
}
