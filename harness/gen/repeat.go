package gen

import "strings"

// RepeatedTokenSources are programs in which one and the same token text — an
// identifier, a quoted name, a string, a number of 1 to 300 bytes — occurs two
// to five times at different places (and once more in a second statement).
func RepeatedTokenSources() []string {
	var out []string
	tmpls := []string{"%s | where %s > 1 | project %s, b = %s + 1 | sort by %s", "T | where a == %s or b == %s", "T | extend x = %s\n| extend y = %s", "let v = 1; T | where f(%s, %s)[%s] == g(%s); T2 | where %s",
		"%s | join (%s) on %s", "T | summarize %s = count() by %s | where %s > 0"}
	for _, n := range []int{1, 2, 7, 8, 11, 12, 13, 15, 16, 17, 31, 32, 33, 63, 64, 65, 255, 256, 300} {
		body := strings.Repeat("InjuriesDirectColumn_", n/21+1)[:n]
		for _, tok := range []string{body, "`" + body + "`", "'" + body + "'", "\"" + body + "\"", strings.Repeat("1234567890", n/10+1)[:n], "`" + body[:n/2] + " é " + body[n/2:] + "`"} {
			for _, t := range tmpls {
				out = append(out, strings.ReplaceAll(t, "%s", tok))
			}
		}
	}
	return out
}
