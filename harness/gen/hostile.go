package gen

import (
	"math/rand"
	"strings"

	"verif/harness/pqlref"
)

// Vocab is the token vocabulary used for soups and token-level insertion.
var Vocab = []string{"|", "(", ")", "[", "]", ",", ";", ".", "=", "==", "!=", "=~", "!~", "<", "<=", ">", ">=", "+", "-", "*", "/", "%",
	"and", "or", "in", "by", "a", "b", "c", "k", "T", "U", "f", "x", "1", "2", "0", "2.5", "1e3", "0x1F", "'s'", "\"t\"", "`q`", "`a b`",
	"where", "filter", "project", "extend", "summarize", "sort", "order", "take", "limit", "top", "join", "kind", "inner", "innerunique", "leftouter",
	"on", "as", "render", "with", "asc", "desc", "nulls", "first", "last", "count", "let", "$left", "$right", "true", "false", "null",
	"not", "isnull", "isnotnull", "iff", "iif", "strcat", "tolower", "toupper", "now", "countif", "sum", "min", "max",
	"!", "0x", "\"u", "'", "`", "\\", "//c\n", "#", "\xff", "é", "\x00", "1e", "..", "barchart", "title",
	// malformed or run-together number spellings
	"0.1.2", "0..5", "1..2", "1.2.3", "0x1g", "1e5e5", "5.e", "..5", "00.0.0", "1.e1.e1", "0x", "0xx1", "1_000",
	// unusual runes: BOM, replacement character, runes whose low byte is ASCII white space, 4-byte runes, Unicode spaces
	"\ufeff", "\ufffd", "\u2020", "\u0420", "\u010d", "三", "😊", "\u00a0", "\u2003", "\r", "\r\n", "\v", "\f",
	"0x000000000000000ff", "0x10000000000000000", "`let`", "`$left`", "`count()`",
	// string literals with an escape followed by a raw line break, and other multi-line oddities
	// block-comment and other comment spellings of neighbouring languages, typographic quotes
	"/*/", "/**/", "/* x */", "*/", "/*", "--", "-- x\n", "#x\n", "\u2018", "\u2019", "\u201c", "\u201d", "'a\u2019b'", "\"a\u201db\"", "```", "```a```", "@'a'", "@\"b",
	// hexadecimal literals around and beyond 64 bits
	"0x8000000000000000", "0xFFFFFFFFFFFFFFFFF", "0x1FFFFFFFFFFFFFFFF", "0x18000000000000000", "0xffffffffffffffff",
	// numbers that stop inside their exponent
	"1e+", "2.5E-", "0e-", "1.e+", ".5e",
	// contextual keywords spelled as strings and quoted names
	"'asc'", "`desc`", "\"asc\"", "'desc'", "`nulls`", "'first'", "`last`", "`by`", "'by'", "`on`", "'kind'", "`kind`", "`with`", "'let'", "`and`", "'or'", "`in`", "'in'", "`inner`", "'leftouter'",
	"\"x\\ty\nz\"", "'p\\\\q\nr'", "\"a\\\"\nb\"", "`c\nd`", "'e\\\nf'"}

// Hostile bytes for byte-level mutation.
var hostileBytes = []byte{'\'', '"', '`', '\\', '/', '-', '*', ';', '(', ')', '[', ']', ' ', 0, '\n', '\t', '\r', 0xff, 0xc3, 0xef, 0xbb, 0xbf, 0xbd, 0xe2, 0x80, 0xa0, '!', '=', '~', '|', ',', '.', '0', 'x', 'e', '$', '_'}

// Lexemes splits a source into its lexemes (by the reference tokenizer).
func Lexemes(s string) []string {
	toks := pqlref.Tokens(s)
	out := make([]string, 0, len(toks))
	for _, t := range toks {
		out = append(out, s[t.Start:t.End])
	}
	return out
}

// MutateTokens applies 1–3 token-level edits (delete, insert, duplicate,
// transpose, truncate, replace) and re-joins with single spaces.
func MutateTokens(rng *rand.Rand, src string) string {
	parts := Lexemes(src)
	for m := 1 + rng.Intn(3); m > 0; m-- {
		if len(parts) == 0 {
			parts = append(parts, Vocab[rng.Intn(len(Vocab))])
			continue
		}
		i := rng.Intn(len(parts))
		switch rng.Intn(6) {
		case 0:
			parts = append(parts[:i:i], parts[i+1:]...)
		case 1:
			parts = append(parts[:i:i], append([]string{Vocab[rng.Intn(len(Vocab))]}, parts[i:]...)...)
		case 2:
			parts = append(parts[:i:i], append([]string{parts[i]}, parts[i:]...)...)
		case 3:
			j := rng.Intn(len(parts))
			parts[i], parts[j] = parts[j], parts[i]
		case 4:
			parts = parts[:i]
		case 5:
			parts[i] = Vocab[rng.Intn(len(Vocab))]
		}
	}
	return strings.Join(parts, " ")
}

// MutateBytes applies 1–3 byte-level edits.
func MutateBytes(rng *rand.Rand, src string) string {
	b := []byte(src)
	for m := 1 + rng.Intn(3); m > 0; m-- {
		if len(b) == 0 {
			b = append(b, hostileBytes[rng.Intn(len(hostileBytes))])
			continue
		}
		i := rng.Intn(len(b))
		switch rng.Intn(5) {
		case 0:
			b[i] ^= 1 << uint(rng.Intn(8))
		case 1:
			b = append(b[:i:i], append([]byte{hostileBytes[rng.Intn(len(hostileBytes))]}, b[i:]...)...)
		case 2:
			b = append(b[:i:i], b[i+1:]...)
		case 3:
			b[i] = hostileBytes[rng.Intn(len(hostileBytes))]
		case 4:
			j := rng.Intn(len(b))
			if i > j {
				i, j = j, i
			}
			// duplicate a slice
			b = append(b[:j:j], append(append([]byte{}, b[i:j]...), b[j:]...)...)
			if len(b) > 6000 {
				b = b[:6000]
			}
		}
	}
	return string(b)
}

// Splice joins the head of one program with the tail of another at token
// boundaries.
func Splice(rng *rand.Rand, a, b string) string {
	pa, pb := Lexemes(a), Lexemes(b)
	if len(pa) == 0 || len(pb) == 0 {
		return a + " " + b
	}
	return strings.Join(pa[:rng.Intn(len(pa)+1)], " ") + " " + strings.Join(pb[rng.Intn(len(pb)):], " ")
}

// Soup makes a token soup of about n bytes.
func Soup(rng *rand.Rand, n int) string {
	var sb strings.Builder
	for sb.Len() < n {
		sb.WriteString(Vocab[rng.Intn(len(Vocab))])
		if rng.Intn(4) != 0 {
			sb.WriteByte(' ')
		}
	}
	return sb.String()
}

// RandomBytes makes n uniformly random bytes.
func RandomBytes(rng *rand.Rand, n int) string {
	b := make([]byte, n)
	for i := range b {
		b[i] = byte(rng.Intn(256))
	}
	return string(b)
}

// Named is a named input.
type Named struct {
	Name string
	Src  string
}

func rep(s string, n int) string { return strings.Repeat(s, n) }

func itoa(i int) string {
	if i == 0 {
		return "0"
	}
	var b []byte
	for i > 0 {
		b = append([]byte{byte('0' + i%10)}, b...)
		i /= 10
	}
	return string(b)
}

// Patho returns the pathological families scaled to about size bytes.
func Patho(size int) []Named {
	n := size
	fit := func(unit string) int {
		k := n / len(unit)
		if k < 1 {
			k = 1
		}
		return k
	}
	half := func(a, b string) int { return fit(a + b) }
	var out []Named
	add := func(name, src string) { out = append(out, Named{name, src}) }
	k := half("(", ")")
	add("parens", "T | where "+rep("(", k)+"a"+rep(")", k))
	add("open-parens", "T | where "+rep("(", fit("(")))
	add("close-parens", "T | where a"+rep(")", fit(")")))
	k = half("-(", ")")
	add("neg-parens", "T | where "+rep("-(", k)+"a"+rep(")", k))
	add("signs", "T | where "+rep("-", fit("-"))+"a")
	add("signs-spaced", "T | where "+rep("- ", fit("- "))+"a")
	k = half("f(", ")")
	add("calls", "T | where "+rep("f(", k)+"a"+rep(")", k))
	k = half("not(", ")")
	add("not-calls", "T | where "+rep("not(", k)+"a"+rep(")", k))
	add("open-calls", "T | where "+rep("f(", fit("f(")))
	k = half("a[", "]")
	add("index", "T | where "+rep("a[", k)+"1"+rep("]", k))
	add("open-index", "T | where "+rep("a[", fit("a[")))
	add("index-chain", "T | where a"+rep("[1]", fit("[1]")))
	add("binchain", "T | where a"+rep(" + a", fit(" + a")))
	add("mulchain", "T | where a"+rep("*a", fit("*a")))
	add("eqchain", "T | where a"+rep(" == a", fit(" == a")))
	add("andor", "T | where a"+rep(" and a or a", fit(" and a or a")))
	add("cichain", "T | where a"+rep(" =~ a", fit(" =~ a")))
	add("inchain", "T | where a"+rep(" in (1)", fit(" in (1)")))
	k = half("a in (", ")")
	add("in-nest", "T | where "+rep("a in (", k)+"1"+rep(")", k))
	add("in-open", "T | where "+rep("a in (", fit("a in (")))
	add("in-list", "T | where a in ("+rep("1,", fit("1,"))+"1)")
	k = half(" | join (T", ") on k")
	add("joins-nest", "T"+rep(" | join (T", k)+rep(") on k", k))
	add("joins-open", "T"+rep(" | join (T", fit(" | join (T")))
	add("joins-seq", "T"+rep(" | join (T) on k", fit(" | join (T) on k")))
	add("join-eq", "T | join (B) on $left.a"+rep(" == $right.a", fit(" == $right.a")))
	add("join-conds", "T | join (B) on "+rep("k,", fit("k,"))+"k")
	add("pipes", "T"+rep(" | count", fit(" | count")))
	add("wheres", "T"+rep("|where a", fit("|where a")))
	add("takes", "T"+rep("|take 1", fit("|take 1")))
	add("sorts", "T"+rep("|sort by a", fit("|sort by a")))
	add("tops", "T"+rep("|top 1 by a", fit("|top 1 by a")))
	add("projects", "T"+rep("|project a", fit("|project a")))
	add("as-chain", "T"+rep("|as a", fit("|as a")))
	add("badpipes", "T"+rep(" | ", fit(" | ")))
	add("badops", "T"+rep("|zz", fit("|zz")))
	add("errors", "T | where "+rep("! ", fit("! ")))
	add("errors-dense", "T | where "+rep("!", fit("!")))
	add("hash-errors", rep("#", fit("#")))
	add("semis", rep(";", fit(";")))
	add("semi-stmts", rep("T;", fit("T;")))
	add("lets", rep("let a = 1;", fit("let a = 1;"))+"T")
	add("let-uses", "let a = 1;"+rep("let b = a;", fit("let b = a;"))+"T | where b")
	add("strings", "T | where "+rep("\"", fit("\"")))
	add("strings-sq", "T | where "+rep("'", fit("'")))
	add("backticks", "T | where "+rep("`", fit("`")))
	add("unterminated", "T | where '"+rep("\\", fit("\\")))
	add("escapes", "T | where '"+rep("\\n", fit("\\n"))+"'")
	add("long-string", "T | where a == '"+rep("x", n)+"'")
	add("long-ident", "T | where "+rep("x", n))
	add("long-number", "T | where a == "+rep("9", n))
	add("long-frac", "T | where a == 0."+rep("9", n))
	add("long-exp", "T | where a == 1e"+rep("9", n))
	add("long-hex", "T | where a == 0x"+rep("f", n))
	add("long-comment", "T // "+rep("c", n)+"\n| count")
	add("comments", "T"+rep("//\n", fit("//\n"))+"| count")
	add("slashes", "T | where a "+rep("/", fit("/")))
	add("dots", "T | where "+rep("a.", fit("a."))+"a")
	add("dots-only", "T | where "+rep(".", fit(".")))
	add("commas", "T | project "+rep("a,", fit("a,"))+"a")
	add("commas-only", "T | project "+rep(",", fit(",")))
	add("extends", "T | extend "+rep("a=1,", fit("a=1,"))+"a=1")
	add("sortterms", "T | sort by "+rep("a asc nulls first,", fit("a asc nulls first,"))+"a")
	k = fit("count(),") / 2
	add("summ", "T | summarize "+rep("count(),", k)+"count() by "+rep("a,", k)+"a")
	add("render", "T | render x with ("+rep("a=1,", fit("a=1,"))+"a=1)")
	k = half("([", "])")
	add("mixed-brackets", "T | where "+rep("([", k)+"a"+rep("])", k))
	add("mismatch-brackets", "T | where "+rep("(]", fit("(]")))
	add("mismatch2", "T | where "+rep("f(a[", fit("f(a[")))
	add("mismatch3", "T | where "+rep(")(", fit(")(")))
	add("mismatch4", "T | where "+rep("][", fit("][")))
	add("args", "T | where f("+rep("a,", fit("a,"))+"a)")
	add("strcat", "T | where strcat("+rep("a,", fit("a,"))+"a) == ''")
	k = half("iff(a,", ",1)")
	add("iff-nest", "T | where "+rep("iff(a,", k)+"1"+rep(",1)", k)+" == 1")
	add("whitespace", "T"+rep(" ", n)+"| count")
	add("newlines", "T"+rep("\n", n)+"| count")
	add("tabs", "T | where"+rep("\t", n)+"!")
	add("nonascii", "T | where "+rep("é", fit("é")))
	add("badutf8", "T | where "+rep("\xff", fit("\xff")))
	add("nul", "T | where "+rep("\x00", fit("\x00")))
	add("kind-spam", "T | join "+rep("kind=inner ", fit("kind=inner "))+"(B) on k")
	// malformed but structured nestings (no generator of valid programs makes these)
	k = half("(", ",1)")
	add("tuple-nest-left", "T | where x == "+rep("(", k)+"1"+rep(",1)", k))
	k = half("(1,", ")")
	add("tuple-nest-right", "T | where x == "+rep("(1,", k)+"1"+rep(")", k))
	k = half("f(", ",1)")
	add("call-args-nest", "T | where "+rep("f(", k)+"1"+rep(",1)", k))
	k = half("x in ((", "),1)")
	add("in-tuple-nest", "T | where "+rep("x in ((", k)+"1"+rep("),1)", k))
	k = half("[", ",1]")
	add("bracket-list-nest", "T | where a"+rep("[", k)+"1"+rep(",1]", k))
	k = half("-(", "+1)")
	add("sign-arith-nest", "T | extend y = "+rep("-(", k)+"x"+rep("+1)", k))
	k = half("-abs(1+", ")")
	add("sign-call-nest", "T | extend y = "+rep("-abs(1+", k)+"x"+rep(")", k))
	k = half("not(a==", ")")
	add("not-eq-nest", "T | where "+rep("not(a==", k)+"b"+rep(")", k))
	k = half("iff(", ",1,2)")
	add("iff-cond-nest", "T | where "+rep("iff(", k)+"a"+rep(",1,2)", k)+" == 1")
	k = half("strcat(", ",'a')")
	add("strcat-nest", "T | where "+rep("strcat(", k)+"s"+rep(",'a')", k)+" == ''")
	k = half("a[", "]+1")
	add("index-arith-nest", "T | where "+rep("a[", k)+"1"+rep("]+1", k))
	add("let-chain", "let a0 = 1;"+func() string {
		var sb strings.Builder
		for i := 1; sb.Len() < n; i++ {
			sb.WriteString("let a" + itoa(i) + " = a" + itoa(i-1) + " + 1;")
		}
		return sb.String()
	}()+"T | where a1 > 0")
	// wide lists nested deeply
	k = half("a in (1,2,3,4,5,6,7,8,", ")")
	add("in-nest-wide", "T | where "+rep("a in (1,2,3,4,5,6,7,8,", k)+"a in (0)"+rep(")", k))
	k = half("f(1,2,3,4,5,6,7,8,9,", ")")
	add("call-nest-wide", "T | where "+rep("f(1,2,3,4,5,6,7,8,9,", k)+"1"+rep(")", k))
	k = half("strcat(a,b,c,d,e,f,g,h,i,", ")")
	add("strcat-nest-wide", "T | extend s = "+rep("strcat(a,b,c,d,e,f,g,h,i,", k)+"'x'"+rep(")", k))
	// long unterminated tokens cut inside a multi-byte character
	for _, L := range []int{30, 62, 63, 64, 65, 126, 127, 128, 254, 255, 256, 510, 511, 512, 1022} {
		if L < n {
			add("open-string-partial-rune-"+itoa(L), "T | where x == \""+rep("a", L)+"\xe6\x97")
			add("open-ident-partial-rune-"+itoa(L), "T | where `"+rep("b", L)+"\xf0\x9f\x98")
			add("long-string-then-error-"+itoa(L), "T | where x == '"+rep("é", L/2)+"' )")
		}
	}
	add("string-open-bs-cr", "T | where a == \"abc\\\r")
	add("string-open-bs-crlf", "T | where a == 'abc\\\r\n| count")
	add("crlf-lines", rep("T | where a == 1 // c\r\n;", fit("T | where a == 1 // c\r\n;")))
	add("bom-start", "\ufeffT | count")
	add("bom-everywhere", rep("\ufeff;", fit("\ufeff;")))
	return out
}

// ParamMaps are the parameter maps the totality and either/or checks use.
var ParamMaps = []map[string]string{
	nil,
	{},
	{"p": "", "a": "", "x": "", "n": "", "T": ""},
	{"p": "-1", "a": "+2", "x": "--", "n": "/*", "lim": "'"},
	{"a": "$1", "k": "{k:String}"},
	{"T": "x", "count": "y", "true": "0", "let": "q", "where": "w", "$left": "l", "by": "b"},
	{"a": "'; DROP TABLE t; --", "b": "/*", "c": "", "x": "\x00"},
	{"": "empty"},
}

// Corpus is a growing set of inputs for site-guided mutation.
type Corpus struct {
	Items []string
	sigs  map[string]struct{}
	max   int
}

func NewCorpus(seeds []string, max int) *Corpus {
	c := &Corpus{sigs: map[string]struct{}{}, max: max}
	c.Items = append(c.Items, seeds...)
	return c
}

// Offer adds s if its coverage signature is new. It reports whether s was kept.
func (c *Corpus) Offer(s, sig string) bool {
	if _, ok := c.sigs[sig]; ok {
		return false
	}
	c.sigs[sig] = struct{}{}
	if len(c.Items) < c.max && len(s) < 4096 {
		c.Items = append(c.Items, s)
		return true
	}
	return false
}

func (c *Corpus) Pick(rng *rand.Rand) string { return c.Items[rng.Intn(len(c.Items))] }
func (c *Corpus) Signatures() int            { return len(c.sigs) }

// Mutant derives one hostile input from the corpus.
func (c *Corpus) Mutant(rng *rand.Rand) string {
	switch rng.Intn(10) {
	case 0, 1, 2, 3:
		return MutateTokens(rng, c.Pick(rng))
	case 4, 5, 6:
		return MutateBytes(rng, c.Pick(rng))
	case 7:
		return Splice(rng, c.Pick(rng), c.Pick(rng))
	case 8:
		return Soup(rng, 1+rng.Intn(120))
	default:
		return MutateBytes(rng, MutateTokens(rng, c.Pick(rng)))
	}
}
