// Package gen holds the seeded workload generators shared by the checks.
package gen

import (
	_ "embed"
	"os"
	"path/filepath"
	"sort"
	"strings"
)

//go:embed seeds.txt
var seedsTxt string

// Seeds returns the hand-written corpus (valid and invalid one-line programs)
// plus the inputs of the repository's golden tests when they can be read.
func Seeds() []string {
	var out []string
	for _, l := range strings.Split(seedsTxt, "\n") {
		if strings.TrimSpace(l) != "" {
			out = append(out, l)
		}
	}
	repo := os.Getenv("VERIF_REPO_DIR")
	if repo == "" {
		repo = "/repo"
	}
	files, _ := filepath.Glob(filepath.Join(repo, "testdata", "Goldens", "*", "input.pql"))
	sort.Strings(files)
	for _, f := range files {
		if b, err := os.ReadFile(f); err == nil {
			out = append(out, string(b))
		}
	}
	return out
}
