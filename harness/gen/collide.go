package gen

// NameCollisionSources are pipelines whose results are named alike, like a
// table or like a generated subquery name, with every operator between and
// after the names.
func NameCollisionSources() []string {
	var out []string
	ops := []string{"", "| where a > 1 ", "| count ", "| take 3 ", "| sort by a ", "| project a, k ", "| summarize n = count() by k ", "| join (U) on k ", "| extend z = 1 | take 2 | sort by z "}
	for _, n1 := range []string{"X", "T", "U", "__subquery0", "__subquery1", "__subquery2"} {
		for _, n2 := range []string{"X", "T", "__subquery1", "__subquery2", "__subquery3", "Y"} {
			for _, a := range ops {
				for _, b := range ops {
					for _, c := range []string{"", "| count", "| where k > 0 | take 1", "| join (" + n2 + ") on k", "| as " + n1 + " | sort by k"} {
						out = append(out, "T "+a+"| as "+n1+" "+b+"| as "+n2+" "+c)
					}
				}
			}
		}
	}
	return out
}
