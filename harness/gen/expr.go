package gen

import (
	"fmt"
	"math/rand"
	"sort"
	"strings"

	. "verif/harness/pqlref"
	"verif/harness/val"
)

// Ty is the nominal type of a generated expression.
type Ty int

const (
	TInt Ty = iota
	TStr
	TBool
	TArr
)

func (t Ty) String() string { return [...]string{"int", "str", "bool", "arr"}[t] }

// Column naming convention: the first letter gives the nominal type.
//
//	i… int, s… string, b… bool, m… array of ints
func ColType(name string) Ty {
	switch {
	case strings.HasPrefix(name, "s"):
		return TStr
	case strings.HasPrefix(name, "b"):
		return TBool
	case strings.HasPrefix(name, "m"):
		return TArr
	}
	return TInt
}

// Domain is the set of values a column of a nominal type ranges over when
// rows are enumerated: its own type with NULL, plus one off-type value so that
// "fails vs yields a value" differences between groupings are visible.
func Domain(t Ty) []val.V {
	switch t {
	case TStr:
		return []val.V{val.NULL, val.S(""), val.S("a"), val.S("A"), val.S("b"), val.S("Ab")}
	case TBool:
		return []val.V{val.NULL, val.TRUE, val.FALSE}
	case TArr:
		return []val.V{val.NULL, val.A(val.I(1), val.I(2), val.I(3)), val.A(val.I(0), val.I(-1)), val.A()}
	}
	return []val.V{val.NULL, val.I(-1), val.I(0), val.I(1), val.I(2), val.I(7), val.A(val.I(3), val.I(5))}
}

// ExprGen generates nominally typed expression *meanings* (no paren nodes).
type ExprGen struct {
	Rng *rand.Rand
	// Cols available per type.
	Cols map[Ty][]Ident
	// Bound names (lets, parameters) per type, usable as leaves.
	Bound map[Ty][]string
	// IllTyped: one in IllTyped sub-expressions is generated with a random
	// type (0 = never).
	IllTyped int
	// Agg allows count(), countif(), sum(), min(), max() (summarize context).
	Agg bool
	// NoCols: generate closed constant expressions (let values).
	NoCols bool
}

// DefaultCols is the standard schema of the expression checks.
func DefaultCols() map[Ty][]Ident {
	return map[Ty][]Ident{
		// `$left` and `$right` are ordinary column names when quoted
		TInt: {{Name: "ia"}, {Name: "ib"}, {Name: "i c", Quoted: true}, {Name: "$left", Quoted: true}, {Name: "$right", Quoted: true},
			// case variants of the built-in constants are ordinary column names
			{Name: "Null"}, {Name: "True"}},
		TStr:  {{Name: "sa"}, {Name: "sb"}},
		TBool: {{Name: "ba"}, {Name: "bb"}},
		TArr:  {{Name: "ma"}},
	}
}

var intLits = []string{"0", "1", "2", "3", "7", "007", "0x2", "10", "1.5", ".5", "2.", "1e1", "0e0", "18446744073709551616", "9223372036854775807", "0xffffffffffffffff",
	// upper-case markers, zero mantissas, leading zeros in every part
	"0E0", "0E5", "00E1", "0E-3", "1E1", "0X1f", "0x00000000000000000ff", "00.50", "0.0E5", "000"}

// function names that only look like built-ins: they are passed through by name
var lookalikes = []string{"ISNULL", "IsNull", "ISNOTNULL", "STRCAT", "IFF", "Iif", "TOLOWER", "ToUpper", "NOW"}
var dialectFuncs = DialectFuncs

// DialectFuncs: scalar functions of Kusto that this language does not define.
var DialectFuncs = []string{"long", "int", "real", "double", "bool", "toint", "tolong", "todouble", "tobool", "tostring", "strlen", "substring", "bin", "floor", "round", "isempty", "isnotempty",
	"array_length", "hash", "datetime", "ago", "min_of", "max_of", "pow", "sqrt", "log", "exp", "trim", "replace", "split", "extract", "parse_json", "startofday", "rand", "sign", "pack", "dynamic", "todatetime", "totimespan"}
var strLits = []string{"", "a", "A", "b", "Ab", "it's", `q"t`, `b\s`, "x y", "é"}

func (g *ExprGen) pickTy() Ty { return Ty(g.Rng.Intn(4)) }

func (g *ExprGen) leaf(t Ty) *E {
	if n := len(g.Bound[t]); n > 0 && g.Rng.Intn(3) == 0 {
		return Name(g.Bound[t][g.Rng.Intn(n)])
	}
	cols := g.Cols[t]
	if !g.NoCols && len(cols) > 0 && g.Rng.Intn(3) != 0 {
		c := cols[g.Rng.Intn(len(cols))]
		return &E{K: "name", Parts: []Ident{c}}
	}
	switch t {
	case TStr:
		return StrLit(strLits[g.Rng.Intn(len(strLits))], g.Rng.Intn(2) == 0)
	case TBool:
		return Name([]string{"true", "false"}[g.Rng.Intn(2)])
	case TArr:
		if g.NoCols || len(cols) == 0 {
			return Call("fa", Num("1"))
		}
		return &E{K: "name", Parts: []Ident{cols[g.Rng.Intn(len(cols))]}}
	}
	if g.Rng.Intn(12) == 0 {
		return Name("null")
	}
	return Num(intLits[g.Rng.Intn(len(intLits))])
}

// isCol: name is a column of the schema (whether or not a binding has the same name).
func (g *ExprGen) isCol(name string) bool {
	for _, l := range g.Cols {
		for _, c := range l {
			if c.Name == name {
				return true
			}
		}
	}
	return false
}

// Gen makes an expression of nominal type t with nesting depth <= depth.
func (g *ExprGen) Gen(t Ty, depth int) *E {
	if g.IllTyped > 0 && g.Rng.Intn(g.IllTyped) == 0 {
		t = g.pickTy()
	}
	if depth <= 0 || g.Rng.Intn(5) == 0 {
		return g.leaf(t)
	}
	d := depth - 1
	r := g.Rng
	switch t {
	case TBool:
		if r.Intn(16) == 0 {
			// a chain of 2..6 alike comparisons of one leaf with literals, joined by
			// one logical operator (the shape IN-folding and chain rewrites look for);
			// the leaf is written bare, quoted or parenthesised from link to link
			leaf := g.leaf(TInt)
			op := []string{"or", "and"}[r.Intn(2)]
			cmp := []string{"==", "==", "!=", "<"}[r.Intn(4)]
			var e *E
			for i, n := 0, 2+r.Intn(5); i < n; i++ {
				l := leaf
				if leaf.K == "name" && len(leaf.Parts) == 1 && !leaf.Parts[0].Quoted && r.Intn(3) == 0 && !g.NoCols && g.isCol(leaf.Parts[0].Name) {
					// the same name quoted: always the column, never a binding
					l = &E{K: "name", Parts: []Ident{{Name: leaf.Parts[0].Name, Quoted: true}}}
				}
				link := Bin(cmp, l, Num(intLits[r.Intn(8)]))
				if r.Intn(5) == 0 {
					link = Bin(cmp, Num(intLits[r.Intn(8)]), l)
				}
				if e == nil {
					e = link
				} else {
					e = Bin(op, e, link)
				}
			}
			return e
		}
		switch r.Intn(14) {
		case 0, 1:
			return Bin([]string{"or", "and"}[r.Intn(2)], g.Gen(TBool, d), g.Gen(TBool, d))
		case 2, 3:
			tt := []Ty{TInt, TStr, TBool}[r.Intn(3)]
			return Bin([]string{"==", "!="}[r.Intn(2)], g.Gen(tt, d), g.Gen(tt, d))
		case 4, 5:
			tt := []Ty{TInt, TInt, TStr}[r.Intn(3)]
			return Bin([]string{"<", "<=", ">", ">="}[r.Intn(4)], g.Gen(tt, d), g.Gen(tt, d))
		case 6:
			return Bin([]string{"=~", "!~"}[r.Intn(2)], g.Gen(TStr, d), g.Gen(TStr, d))
		case 7, 8:
			tt := []Ty{TInt, TStr, TBool}[r.Intn(3)]
			e := In(g.Gen(tt, d))
			for i := 1 + r.Intn(3); i > 0; i-- {
				e.Kids = append(e.Kids, g.Gen(tt, d))
			}
			return e
		case 9:
			return Call("not", g.Gen(TBool, d))
		case 10:
			return Call([]string{"isnull", "isnotnull"}[r.Intn(2)], g.Gen(g.pickTy(), d))
		case 11:
			return Call([]string{"iff", "iif"}[r.Intn(2)], g.Gen(TBool, d), g.Gen(TBool, d), g.Gen(TBool, d))
		case 12:
			if r.Intn(3) == 0 {
				return Call(lookalikes[r.Intn(len(lookalikes))], g.Gen(g.pickTy(), d))
			}
			return Call("fb", g.Gen(g.pickTy(), d))
		default:
			return g.leaf(TBool)
		}
	case TStr:
		switch r.Intn(7) {
		case 0, 1:
			e := Call("strcat", g.Gen(TStr, d))
			for i := r.Intn(3); i > 0; i-- {
				e.Kids = append(e.Kids, g.Gen(TStr, d))
			}
			return e
		case 2:
			return Call([]string{"tolower", "toupper"}[r.Intn(2)], g.Gen(TStr, d))
		case 3:
			return Call("iff", g.Gen(TBool, d), g.Gen(TStr, d), g.Gen(TStr, d))
		case 4:
			switch r.Intn(4) {
			case 0:
				return Call("lower", g.Gen(TStr, d))
			case 1:
				return Call("concat", g.Gen(TStr, d), g.Gen(TStr, d))
			}
			return Call([]string{"fs", "fs2"}[r.Intn(2)], g.Gen(TStr, d), g.Gen(g.pickTy(), d))
		default:
			return g.leaf(TStr)
		}
	case TArr:
		if r.Intn(3) == 0 {
			return Call("fa", g.Gen(TInt, d))
		}
		return g.leaf(TArr)
	}
	switch r.Intn(16) {
	case 0, 1, 2, 3, 4:
		return Bin([]string{"+", "-", "*", "/", "%"}[r.Intn(5)], g.Gen(TInt, d), g.Gen(TInt, d))
	case 5, 6:
		return Un([]string{"-", "-", "+"}[r.Intn(3)], g.Gen(TInt, d))
	case 7:
		ix := g.Gen(TInt, d)
		if ix.K == "num" && strings.ContainsAny(ix.Lit, ".eE") {
			ix = Num("1")
		}
		return Idx(g.Gen(TArr, d), ix)
	case 8:
		return Call("iff", g.Gen(TBool, d), g.Gen(TInt, d), g.Gen(TInt, d))
	case 9:
		return Call("now")
	case 10:
		if g.Agg {
			switch r.Intn(4) {
			case 0:
				return Call("count")
			case 1:
				return Call("countif", g.Gen(TBool, d))
			default:
				return Call([]string{"sum", "min", "max"}[r.Intn(3)], g.Gen(TInt, d))
			}
		}
		return Call("fi", g.Gen(TInt, d))
	case 11:
		if r.Intn(4) == 0 {
			return Call("coalesce", g.Gen(TInt, d), g.Gen(TInt, d))
		}
		if r.Intn(5) == 0 {
			// a string literal indexed by an integer expression (the index may be a binding)
			return Idx(StrLit(strLits[1+r.Intn(len(strLits)-1)], r.Intn(2) == 0), g.Gen(TInt, d))
		}
		n := r.Intn(3)
		names := append([]string{"fi", "fi2", "abs"}, lookalikes...)
		if r.Intn(3) == 0 {
			// functions of the dialect family this language follows: not built in
			// here, so they are passed through by name like any other
			names = dialectFuncs
		}
		e := Call(names[r.Intn(len(names))])
		if r.Intn(4) == 0 {
			// literal arguments (signed ones too): where a rewrite of the call would differ first
			for i := 0; i <= n; i++ {
				lit := Num(intLits[r.Intn(len(intLits))])
				if r.Intn(2) == 0 {
					lit = Un("-", lit)
				}
				e.Kids = append(e.Kids, lit)
			}
			return e
		}
		for i := 0; i <= n; i++ {
			e.Kids = append(e.Kids, g.Gen(g.pickTy(), d))
		}
		return e
	default:
		return g.leaf(TInt)
	}
}

// ColsOf lists the columns (as env keys) an expression mentions, sorted.
// Names in bound are not columns.
func ColsOf(e *E, bound map[string]bool) []string {
	set := map[string]bool{}
	var walk func(e *E)
	walk = func(e *E) {
		if e == nil {
			return
		}
		if e.K == "name" {
			if len(e.Parts) == 1 && !e.Parts[0].Quoted {
				n := e.Parts[0].Name
				if bound[n] || n == "true" || n == "false" || n == "null" {
					return
				}
			}
			k := ""
			for i, p := range e.Parts {
				if i > 0 {
					k += "\x1f"
				}
				k += p.Name
			}
			set[k] = true
		}
		for _, k := range e.Kids {
			walk(k)
		}
	}
	walk(e)
	var out []string
	for k := range set {
		out = append(out, k)
	}
	sort.Strings(out)
	return out
}

// Rows enumerates valuations of the given columns: the full product of the
// domains when it has at most max rows, a seeded sample (always containing
// the all-NULL and the all-first-value rows) otherwise.
func Rows(cols []string, max int, rng *rand.Rand) []Row {
	doms := make([][]val.V, len(cols))
	total := 1
	for i, c := range cols {
		last := c
		if j := strings.LastIndex(c, "\x1f"); j >= 0 {
			last = c[j+1:]
		}
		doms[i] = Domain(ColType(last))
		if total <= max {
			total *= len(doms[i])
		}
	}
	var out []Row
	if total <= max {
		idx := make([]int, len(cols))
		for {
			r := Row{}
			for i, c := range cols {
				r[c] = doms[i][idx[i]]
			}
			out = append(out, r)
			k := len(cols) - 1
			for k >= 0 {
				idx[k]++
				if idx[k] < len(doms[k]) {
					break
				}
				idx[k] = 0
				k--
			}
			if k < 0 {
				break
			}
		}
		return out
	}
	for n := 0; n < max; n++ {
		r := Row{}
		for i, c := range cols {
			switch n {
			case 0:
				r[c] = doms[i][0]
			case 1:
				r[c] = doms[i][1]
			default:
				r[c] = doms[i][rng.Intn(len(doms[i]))]
			}
		}
		out = append(out, r)
	}
	return out
}

// EnumTyped enumerates every nominally well-typed tree with exactly n
// operator nodes over a small fixed leaf set, for root type t.
type EnumTyped struct {
	memo map[string][]*E
	// Leaves per type.
	Leaves map[Ty][]*E
}

func NewEnumTyped(rich bool) *EnumTyped {
	e := &EnumTyped{memo: map[string][]*E{}}
	e.Leaves = map[Ty][]*E{
		TInt:  {Name("ia"), Num("2")},
		TStr:  {Name("sa"), Str("'A'", "A")},
		TBool: {Name("ba"), Name("true")},
		TArr:  {Name("ma")},
	}
	if rich {
		e.Leaves[TInt] = append(e.Leaves[TInt], Name("ib"))
		e.Leaves[TBool] = append(e.Leaves[TBool], Name("bb"))
	}
	return e
}

type prod struct {
	mk   func(kids []*E) *E
	args []Ty
}

func binP(op string, a, b Ty) prod {
	return prod{func(k []*E) *E { return Bin(op, k[0], k[1]) }, []Ty{a, b}}
}
func callP(fn string, args ...Ty) prod {
	return prod{func(k []*E) *E { return Call(fn, k...) }, args}
}

func prods(t Ty) []prod {
	switch t {
	case TBool:
		ps := []prod{binP("or", TBool, TBool), binP("and", TBool, TBool)}
		for _, tt := range []Ty{TInt, TStr, TBool} {
			ps = append(ps, binP("==", tt, tt))
		}
		ps = append(ps, binP("!=", TInt, TInt), binP("!=", TStr, TStr))
		for _, op := range []string{"<", "<=", ">", ">="} {
			ps = append(ps, binP(op, TInt, TInt))
		}
		ps = append(ps, binP("<", TStr, TStr), binP("=~", TStr, TStr), binP("!~", TStr, TStr))
		for _, tt := range []Ty{TInt, TStr, TBool} {
			ps = append(ps, prod{func(k []*E) *E { return In(k[0], k[1], k[2]) }, []Ty{tt, tt, tt}})
		}
		ps = append(ps, callP("not", TBool), callP("isnull", TInt), callP("isnull", TBool), callP("isnull", TStr), callP("isnotnull", TInt),
			callP("iff", TBool, TBool, TBool), callP("fb", TInt))
		return ps
	case TInt:
		var ps []prod
		for _, op := range []string{"+", "-", "*", "/", "%"} {
			ps = append(ps, binP(op, TInt, TInt))
		}
		ps = append(ps,
			prod{func(k []*E) *E { return Un("-", k[0]) }, []Ty{TInt}},
			prod{func(k []*E) *E { return Un("+", k[0]) }, []Ty{TInt}},
			prod{func(k []*E) *E { return Idx(k[0], k[1]) }, []Ty{TArr, TInt}},
			callP("iff", TBool, TInt, TInt), callP("now"), callP("count"), callP("countif", TBool), callP("fi", TInt), callP("fi", TStr, TInt))
		return ps
	case TStr:
		return []prod{callP("strcat", TStr, TStr), callP("strcat", TStr), callP("tolower", TStr), callP("toupper", TStr), callP("iff", TBool, TStr, TStr), callP("fs", TStr)}
	case TArr:
		return []prod{callP("fa", TInt)}
	}
	return nil
}

// Trees returns all trees of type t with exactly n operator nodes.
func (e *EnumTyped) Trees(t Ty, n int) []*E {
	key := fmt.Sprint(t, "/", n)
	if r, ok := e.memo[key]; ok {
		return r
	}
	var out []*E
	if n == 0 {
		out = e.Leaves[t]
		e.memo[key] = out
		return out
	}
	for _, p := range prods(t) {
		if len(p.args) == 0 {
			if n == 1 {
				out = append(out, p.mk(nil))
			}
			continue
		}
		// distribute n-1 operator nodes over the operands
		var rec func(i, left int, kids []*E)
		rec = func(i, left int, kids []*E) {
			if i == len(p.args)-1 {
				for _, k := range e.Trees(p.args[i], left) {
					out = append(out, p.mk(append(append([]*E{}, kids...), k)))
				}
				return
			}
			for use := 0; use <= left; use++ {
				for _, k := range e.Trees(p.args[i], use) {
					rec(i+1, left-use, append(kids, k))
				}
			}
		}
		rec(0, n-1, nil)
	}
	e.memo[key] = out
	return out
}
