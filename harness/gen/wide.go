package gen

import (
	"fmt"

	. "verif/harness/pqlref"
)

// WideSizes are the list lengths / depths the "wide" families use: every
// small size and the neighbourhoods of powers of two.
var WideSizes = []int{1, 2, 3, 4, 5, 6, 7, 8, 9, 10, 11, 12, 13, 14, 15, 16, 17, 20, 31, 32, 33, 63, 64, 65, 100, 127, 128, 129, 200, 255, 256, 257}

// WideKinds are the list-like constructs of the language.
var WideKinds = []string{"project", "project-names", "extend", "extend-unnamed", "summarize-aggs", "summarize-keys", "sort", "in", "call-args", "strcat", "and", "or", "plus", "minus",
	"join-conds", "render-props", "lets", "let-chain", "statements", "wheres", "extends", "parens", "qualified", "neg-parens", "not-nest", "iff-nest", "index-nest", "joins",
	"in-consts", "let-uses", "where-consts", "in-lits", "in-plain",
	"in-repeats", "in-paren-lits", "joins-nested", "index-parens", "lets-shadowing", "render-props-repeated", "lists-nested"}

// WideSizesBig continues WideSizes up to a few thousand elements.
var WideSizesBig = []int{512, 999, 1000, 1001, 1023, 1024, 1025, 2047, 2048, 2049, 2100, 4097}

func col(i int) *E { return Name(fmt.Sprintf("c%d", i)) }

// Wide builds a syntactically valid program whose construct of the given kind
// has n elements (or nesting depth n).
func Wide(kind string, n int) *Program {
	id := func(s string) *Ident { return &Ident{Name: s} }
	q := func(ops ...*Op) *Program { return Query("T", ops...) }
	switch kind {
	case "project":
		op := &Op{K: "project"}
		for i := 0; i < n; i++ {
			op.Cols = append(op.Cols, Col{Name: id(fmt.Sprintf("p%d", i)), X: Bin("+", col(i), Num(fmt.Sprint(i)))})
		}
		return q(op)
	case "project-names":
		op := &Op{K: "project"}
		for i := 0; i < n; i++ {
			op.Cols = append(op.Cols, Col{Name: id(fmt.Sprintf("c%d", i))})
		}
		return q(op)
	case "extend", "extend-unnamed":
		op := &Op{K: "extend"}
		for i := 0; i < n; i++ {
			c := Col{X: Bin("*", col(i), Num("2"))}
			if kind == "extend" {
				c.Name = id(fmt.Sprintf("e%d", i))
			}
			op.Cols = append(op.Cols, c)
		}
		return q(op)
	case "summarize-aggs":
		op := &Op{K: "summarize", HasBy: true, By: []Col{{X: Name("k")}}}
		for i := 0; i < n; i++ {
			c := Col{X: Call([]string{"sum", "min", "max"}[i%3], col(i))}
			if i%2 == 0 {
				c.Name = id(fmt.Sprintf("a%d", i))
			}
			op.Cols = append(op.Cols, c)
		}
		return q(op)
	case "summarize-keys":
		op := &Op{K: "summarize", HasBy: true, Cols: []Col{{Name: id("n"), X: Call("count")}}}
		for i := 0; i < n; i++ {
			c := Col{X: col(i)}
			if i%2 == 1 {
				c.Name = id(fmt.Sprintf("k%d", i))
			}
			op.By = append(op.By, c)
		}
		return q(op)
	case "sort":
		op := &Op{K: "sort"}
		for i := 0; i < n; i++ {
			op.Terms = append(op.Terms, SortTerm{X: col(i), Dir: []string{"", "asc", "desc"}[i%3], Nulls: []string{"", "first", "last"}[(i/3)%3]})
		}
		return q(op)
	case "in":
		e := In(Name("x"))
		for i := 0; i < n; i++ {
			// constants of every shape: plain, signed, parenthesised, strings
			var v *E
			switch i % 5 {
			case 1:
				v = Un("-", Num(fmt.Sprint(i)))
			case 3:
				v = Paren(Num(fmt.Sprint(i)))
			case 4:
				v = StrLit(fmt.Sprint("s", i), i%2 == 0)
			default:
				v = Num(fmt.Sprint(i))
			}
			e.Kids = append(e.Kids, v)
		}
		return q(&Op{K: "where", X: e})
	case "in-plain":
		// plain number and string literals only (what a literal-list fast path looks for)
		e := In(Name("x"))
		for i := 0; i < n; i++ {
			if i%4 == 3 {
				e.Kids = append(e.Kids, StrLit(fmt.Sprint("s", i), i%8 == 3))
			} else {
				e.Kids = append(e.Kids, Num(fmt.Sprint(i)))
			}
		}
		return q(&Op{K: "where", X: e})
	case "in-lits":
		// literals only: numbers, signed numbers, strings
		e := In(Name("x"))
		for i := 0; i < n; i++ {
			switch i % 4 {
			case 1:
				e.Kids = append(e.Kids, Un("-", Num(fmt.Sprint(i))))
			case 3:
				e.Kids = append(e.Kids, StrLit(fmt.Sprint("s", i), false))
			default:
				e.Kids = append(e.Kids, Num(fmt.Sprint(i)))
			}
		}
		return q(&Op{K: "where", X: e})
	case "in-consts":
		// the built-in constants and a bound name, n times
		e := In(Name("x"))
		for i := 0; i < n; i++ {
			e.Kids = append(e.Kids, Name([]string{"null", "true", "false", "v"}[i%4]))
		}
		return &Program{Stmts: []*Stmt{{LetName: id("v"), LetX: Num("7")}, {Pipe: &Pipe{Table: Ident{Name: "T"}, Ops: []*Op{{K: "where", X: e}}}}}}
	case "let-uses":
		// one binding used n times over several operators
		pr := &Program{Stmts: []*Stmt{{LetName: id("v"), LetX: Un("-", Num("1"))}, {LetName: id("w"), LetX: StrLit("s", false)}}}
		p := &Pipe{Table: Ident{Name: "T"}}
		for i := 0; i < n; i += 4 {
			p.Ops = append(p.Ops, &Op{K: "where", X: Bin("or", Bin(">", Bin("+", Name("v"), col(i)), Name("v")), Bin("==", Name("w"), Call("strcat", Name("w"), Name("w"))))})
		}
		pr.Stmts = append(pr.Stmts, &Stmt{Pipe: p})
		return pr
	case "where-consts":
		var ops []*Op
		for i := 0; i < n; i += 3 {
			ops = append(ops, &Op{K: "where", X: Bin("or", Bin("==", col(i), Name("true")), Call("isnull", Call("iff", Name("false"), Name("null"), col(i))))})
		}
		return q(ops...)
	case "call-args":
		e := Call("f")
		for i := 0; i < n; i++ {
			e.Kids = append(e.Kids, col(i))
		}
		return q(&Op{K: "where", X: e})
	case "strcat":
		e := Call("strcat")
		for i := 0; i < n; i++ {
			e.Kids = append(e.Kids, col(i))
		}
		return q(&Op{K: "extend", Cols: []Col{{Name: id("s"), X: e}}})
	case "and", "or", "plus", "minus":
		op := map[string]string{"and": "and", "or": "or", "plus": "+", "minus": "-"}[kind]
		e := col(0)
		for i := 1; i <= n; i++ {
			e = Bin(op, e, col(i))
		}
		if kind == "plus" || kind == "minus" {
			return q(&Op{K: "extend", Cols: []Col{{Name: id("s"), X: e}}})
		}
		return q(&Op{K: "where", X: e})
	case "join-conds":
		op := &Op{K: "join", Kind: "inner", Right: &Pipe{Table: Ident{Name: "U"}}}
		for i := 0; i < n; i++ {
			if i%2 == 0 {
				op.Conds = append(op.Conds, col(i))
			} else {
				op.Conds = append(op.Conds, Bin("==", Name("$left", fmt.Sprintf("c%d", i)), Name("$right", fmt.Sprintf("d%d", i))))
			}
		}
		return q(op)
	case "render-props":
		op := &Op{K: "render", Name: Ident{Name: "barchart"}, With: true}
		for i := 0; i < n; i++ {
			op.Props = append(op.Props, Prop{Name: Ident{Name: fmt.Sprintf("p%d", i)}, Val: []*E{Num(fmt.Sprint(i)), Str(fmt.Sprintf("'v%d'", i), fmt.Sprintf("v%d", i)), Name("stacked")}[i%3]})
		}
		return q(op)
	case "lets", "let-chain":
		pr := &Program{}
		for i := 0; i < n; i++ {
			x := Num(fmt.Sprint(i))
			if kind == "let-chain" && i > 0 {
				x = Bin("+", Name(fmt.Sprintf("v%d", i-1)), Num("1"))
			}
			pr.Stmts = append(pr.Stmts, &Stmt{LetName: id(fmt.Sprintf("v%d", i)), LetX: x})
		}
		pr.Stmts = append(pr.Stmts, &Stmt{Pipe: &Pipe{Table: Ident{Name: "T"}, Ops: []*Op{{K: "where", X: Bin("==", Name("a"), Name(fmt.Sprintf("v%d", n-1)))}}}})
		return pr
	case "statements":
		pr := &Program{}
		for i := 0; i < n; i++ {
			pr.Stmts = append(pr.Stmts, &Stmt{Pipe: &Pipe{Table: Ident{Name: fmt.Sprintf("T%d", i)}, Ops: []*Op{{K: "count"}}}})
		}
		return pr
	case "wheres", "extends":
		var ops []*Op
		for i := 0; i < n; i++ {
			if kind == "wheres" {
				ops = append(ops, &Op{K: "where", X: Bin(">", col(i), Num(fmt.Sprint(i)))})
			} else {
				ops = append(ops, &Op{K: "extend", Cols: []Col{{Name: id(fmt.Sprintf("e%d", i)), X: Bin("+", col(i), Num("1"))}}})
			}
		}
		return q(ops...)
	case "parens":
		e := Name("a")
		for i := 0; i < n; i++ {
			e = Paren(e)
		}
		return q(&Op{K: "where", X: e})
	case "qualified":
		e := &E{K: "name"}
		for i := 0; i <= n; i++ {
			e.Parts = append(e.Parts, Ident{Name: fmt.Sprintf("q%d", i)})
		}
		return q(&Op{K: "where", X: Bin("==", e, Num("1"))})
	case "neg-parens":
		e := Name("a")
		for i := 0; i < n; i++ {
			e = Un("-", Paren(e))
		}
		return q(&Op{K: "extend", Cols: []Col{{Name: id("s"), X: e}}})
	case "not-nest":
		e := Name("a")
		for i := 0; i < n; i++ {
			e = Call("not", e)
		}
		return q(&Op{K: "where", X: e})
	case "iff-nest":
		e := Name("a")
		for i := 0; i < n; i++ {
			e = Call("iff", Bin("==", col(i), Num("1")), e, Num(fmt.Sprint(i)))
		}
		return q(&Op{K: "extend", Cols: []Col{{Name: id("s"), X: e}}})
	case "index-nest":
		e := Num("1")
		for i := 0; i < n; i++ {
			e = Idx(col(i), e)
		}
		return q(&Op{K: "extend", Cols: []Col{{Name: id("s"), X: e}}})
	case "in-repeats":
		// few distinct values, each many times, as numbers and as strings of the same text
		e := In(Name("x"))
		for i := 0; i < n; i++ {
			if i%3 == 2 {
				e.Kids = append(e.Kids, StrLit(fmt.Sprint(i%5), i%2 == 0))
			} else {
				e.Kids = append(e.Kids, Num(fmt.Sprint(i%5)))
			}
		}
		return q(&Op{K: "where", X: e})
	case "lists-nested":
		// a list of n elements whose middle element is a call of n arguments whose
		// middle argument is a list of n elements again (and a join with n
		// conditions around it when n is small)
		inner := In(Name("z"))
		for i := 0; i < n; i++ {
			inner.Kids = append(inner.Kids, Num(fmt.Sprint(i)))
		}
		call := Call("f")
		for i := 0; i < n; i++ {
			if i == n/2 {
				call.Kids = append(call.Kids, inner)
			} else {
				call.Kids = append(call.Kids, Name(fmt.Sprintf("a%d", i)))
			}
		}
		outer := In(Name("x"))
		for i := 0; i < n; i++ {
			if i == n/2 {
				outer.Kids = append(outer.Kids, call)
			} else {
				outer.Kids = append(outer.Kids, Num(fmt.Sprint(100+i)))
			}
		}
		return q(&Op{K: "where", X: Bin("and", outer, Bin("==", Name("tail"), Num("1")))})
	case "in-paren-lits":
		// literals, some of them in parentheses
		e := In(Name("x"))
		for i := 0; i < n; i++ {
			var v *E = Num(fmt.Sprint(i))
			if i%4 == 2 {
				v = StrLit(fmt.Sprint("s", i), false)
			}
			if i%7 == 3 || i == n-1 {
				v = Paren(v)
			}
			e.Kids = append(e.Kids, v)
		}
		return q(&Op{K: "where", X: e})
	case "joins-nested":
		// every right-hand side ends in a join of its own, n levels deep
		var inner *Pipe
		for i := n - 1; i >= 0; i-- {
			p := &Pipe{Table: Ident{Name: fmt.Sprintf("U%d", i)}}
			if inner != nil {
				p.Ops = append(p.Ops, &Op{K: "join", Kind: []string{"", "inner", "leftouter"}[i%3], Right: inner, Conds: []*E{Name("k")}})
			}
			inner = p
		}
		return q(&Op{K: "join", Right: inner, Conds: []*E{Name("k")}})
	case "index-parens":
		// an index whose subscript sits in n pairs of parentheses, itself inside two calls
		x := Bin("+", Name("i"), Num("1"))
		for i := 0; i < n; i++ {
			x = Paren(x)
		}
		return q(&Op{K: "where", X: Bin("==", Call("tolower", Call("trim", Idx(Name("tags"), x))), StrLit("a", false))}, &Op{K: "count"})
	case "lets-shadowing":
		// n lets over four names, so that most of them redefine an earlier one
		pr := &Program{}
		for i := 0; i < n; i++ {
			pr.Stmts = append(pr.Stmts, &Stmt{LetName: id(fmt.Sprintf("v%d", (i*3)%4)), LetX: Num(fmt.Sprint(100 + i))})
		}
		pr.Stmts = append(pr.Stmts, &Stmt{Pipe: &Pipe{Table: Ident{Name: "T"}, Ops: []*Op{{K: "where", X: In(Name("a"), Name("v0"), Name("v1"), Name("v2"), Name("v3"))}}}})
		return pr
	case "render-props-repeated":
		op := &Op{K: "render", Name: Ident{Name: "barchart"}, With: true}
		for i := 0; i < n; i++ {
			op.Props = append(op.Props, Prop{Name: Ident{Name: []string{"title", "Title", "kind", "title", "xcolumn"}[i%5]}, Val: []*E{StrLit(fmt.Sprint("v", i), false), Num(fmt.Sprint(i)), Name("stacked")}[i%3]})
		}
		return q(op)
	case "joins":
		var ops []*Op
		for i := 0; i < n; i++ {
			ops = append(ops, &Op{K: "join", Kind: []string{"", "inner", "leftouter"}[i%3], Right: &Pipe{Table: Ident{Name: fmt.Sprintf("U%d", i)}}, Conds: []*E{Name("k")}})
		}
		return q(ops...)
	}
	panic("gen: wide kind " + kind)
}
