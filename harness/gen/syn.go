package gen

import (
	"fmt"
	"math/rand"

	. "verif/harness/pqlref"
)

// Syn generates syntactically valid programs with no regard for typing:
// every node kind in every child slot, every optional part toggled. It is the
// workload of the parser-level checks (C07, C08, C10, C11).
type Syn struct {
	Rng *rand.Rand
	// Hostile: use names and literals with unusual characters.
	Hostile bool
	// Few: every name (columns, aliases, functions) comes from a pool of two,
	// so that the same identifier recurs at many places of one program.
	Few bool
}

var synBare = []string{"a", "b", "c", "x1", "_y", "col", "T", "U", "set", "distinct", "contains", "has", "datetime", "away", "case", "where", "asc", "desc", "nulls", "first", "last", "kind", "on", "with",
	"let", "count", "take", "top", "join", "project", "render", "as", "true", "false", "null", "inner", "$left", "$right", "sum", "f", "not", "iff",
	// words that are enumerations or keywords in the Kusto dialect this language follows
	"visible", "hidden", "linear", "log", "none", "axes", "panels", "stacked", "unstacked", "default", "innerunique", "leftouter", "limit", "filter", "order", "sort", "extend", "summarize",
	// the same words in other letter cases
	"NOT", "IsNull", "COUNT", "Where", "TRUE", "Null", "K", "k",
	// the four keywords in other letter cases are ordinary names
	"Or", "OR", "And", "AND", "By", "BY", "In", "IN", "oR", "bY"}
var synQuoted = []string{"q", "a b", "x`y", "`a", "a`", "`b`", "``", "we ird\"", "by", "and", "é", "1", "a.b", "sel'ect", "/*", "--", ";", "\\", "let", "in", "$left", "count()", "where"}
var synFuncs = []string{"f", "g", "sum", "min", "max", "not", "isnull", "isnotnull", "iff", "iif", "strcat", "tolower", "toupper", "now", "count", "countif", "coalesce", "asc", "where",
	"NOT", "ISNULL", "IsNull", "STRCAT", "IFF", "COUNT", "ToLower", "NOW", "CountIf"}
var synNums = []string{"0E5", "00E1", "0E-3", "0.0E5", "0", "1", "2", "42", "007", "1.5", ".5", "5.", "1e3", "1E-2", "2.5e+3", "0x1F", "0XaB", "0e0", "18446744073709551615", "00.10"}

// integer spellings around the widths integers are stored in
var synInts = []string{"0", "00", "007", "2147483647", "2147483648", "4294967295", "4294967296", "9007199254740993", "9223372036854775807", "9223372036854775808", "18446744073709551615",
	"18446744073709551616", "99999999999999999999999", "0x0", "0x7fffffff", "0x80000000", "0xFFFFFFFF", "0x7fffffffffffffff", "0x8000000000000000", "0xffffffffffffffff", "0x00000000000000000ff", "0X10"}

// IntSpellings are the integer literal spellings the directed families use.
var IntSpellings = synInts

var synStrs = [][2]string{{`'s'`, "s"}, {`"t"`, "t"}, {`''`, ""}, {`'it\'s'`, "it's"}, {`"a\nb"`, "a\nb"}, {`'a"b'`, `a"b`}, {`"x\\y"`, `x\y`},
	{`'é;|)'`, "é;|)"}, {`"// no comment"`, "// no comment"}, {`'\t'`, "\t"}, {"'a\xffb'", "a\xffb"}, {`'\q'`, "q"}}
var joinKinds = []string{"", "", "inner", "innerunique", "leftouter"}

func (g *Syn) pick(l []string) string {
	if g.Few && len(l) > 2 && (&l[0] == &synBare[0] || &l[0] == &synFuncs[0] || &l[0] == &synQuoted[0]) {
		return []string{"x", "v"}[g.Rng.Intn(2)]
	}
	return l[g.Rng.Intn(len(l))]
}

// Ident makes a random identifier (never one of the four keywords bare).
func (g *Syn) Ident() Ident {
	if g.Rng.Intn(5) == 0 {
		return Ident{Name: g.pick(synQuoted), Quoted: true}
	}
	return Ident{Name: g.pick(synBare)}
}

// BareIdent makes a random unquoted identifier.
func (g *Syn) BareIdent() Ident { return Ident{Name: g.pick(synBare)} }

func (g *Syn) atom() *E {
	switch g.Rng.Intn(8) {
	case 0:
		if g.Rng.Intn(4) == 0 {
			return Num(g.pick(synInts))
		}
		return Num(g.pick(synNums))
	case 1:
		s := synStrs[g.Rng.Intn(len(synStrs))]
		return Str(s[0], s[1])
	case 2:
		e := &E{K: "name"}
		n := 2 + g.Rng.Intn(2)
		for i := 0; i < n; i++ {
			e.Parts = append(e.Parts, g.Ident())
		}
		return e
	default:
		return &E{K: "name", Parts: []Ident{g.Ident()}}
	}
}

// Expr makes a random expression *meaning* (no paren nodes).
func (g *Syn) Expr(depth int) *E {
	if depth <= 0 || g.Rng.Intn(4) == 0 {
		return g.atom()
	}
	switch g.Rng.Intn(12) {
	case 0, 1, 2, 3, 4:
		op := BinOps[g.Rng.Intn(len(BinOps))]
		if op == "in" {
			return g.in(depth)
		}
		return Bin(op, g.Expr(depth-1), g.Expr(depth-1))
	case 5:
		return g.in(depth)
	case 6:
		return Un([]string{"-", "-", "+"}[g.Rng.Intn(3)], g.Expr(depth-1))
	case 7:
		return Idx(g.Expr(depth-1), g.Expr(depth-1))
	case 8, 9, 10:
		n := g.Rng.Intn(4)
		c := Call(g.pick(synFuncs))
		for i := 0; i < n; i++ {
			c.Kids = append(c.Kids, g.Expr(depth-1))
		}
		if n > 0 && g.Rng.Intn(6) == 0 {
			c.TrailComma = true
		}
		return c
	default:
		return g.atom()
	}
}

func (g *Syn) in(depth int) *E {
	n := 1 + g.Rng.Intn(3)
	e := In(g.Expr(depth - 1))
	for i := 0; i < n; i++ {
		e.Kids = append(e.Kids, g.Expr(depth-1))
	}
	return e
}

// Surface turns a meaning into a syntax tree: required parens plus random
// redundant ones.
func (g *Syn) Surface(e *E, redundant int) *E {
	if redundant <= 0 {
		return Parenthesize(e, nil)
	}
	return Parenthesize(e, func() bool { return g.Rng.Intn(redundant) == 0 })
}

func (g *Syn) sexpr(depth int) *E { return g.Surface(g.Expr(depth), 6) }

func (g *Syn) sortTerm(depth int) SortTerm {
	return SortTerm{X: g.sexpr(depth), Dir: []string{"", "asc", "desc"}[g.Rng.Intn(3)], Nulls: []string{"", "", "first", "last"}[g.Rng.Intn(4)]}
}

func (g *Syn) namedCol(depth int, nameProb int) Col {
	c := Col{X: g.sexpr(depth)}
	if g.Rng.Intn(nameProb) != 0 {
		id := g.Ident()
		c.Name = &id
	} else if c.X.K == "name" && len(c.X.Parts) == 1 {
		// an unnamed column that is a bare identifier followed by "=" would
		// read as a name; keep it unambiguous
	}
	return c
}

// Op makes a random operator of the given kind ("" = any).
func (g *Syn) Op(kind string, depth, joinDepth int) *Op {
	kinds := []string{"count", "where", "sort", "take", "top", "project", "extend", "summarize", "join", "as", "render"}
	if kind == "" {
		kind = kinds[g.Rng.Intn(len(kinds))]
		if kind == "join" && joinDepth <= 0 {
			kind = "where"
		}
	}
	op := &Op{K: kind}
	switch kind {
	case "where":
		op.X = g.sexpr(depth)
	case "sort":
		n := 1 + g.Rng.Intn(3)
		for i := 0; i < n; i++ {
			op.Terms = append(op.Terms, g.sortTerm(depth))
		}
	case "take":
		op.X = g.rowCount(depth)
	case "top":
		op.X = g.rowCount(depth)
		op.Terms = []SortTerm{g.sortTerm(depth)}
	case "project":
		n := 1 + g.Rng.Intn(3)
		for i := 0; i < n; i++ {
			id := g.Ident()
			c := Col{Name: &id}
			if g.Rng.Intn(2) == 0 {
				c.X = g.sexpr(depth)
			}
			op.Cols = append(op.Cols, c)
		}
	case "extend":
		n := 1 + g.Rng.Intn(3)
		for i := 0; i < n; i++ {
			op.Cols = append(op.Cols, g.namedCol(depth, 3))
		}
	case "summarize":
		n := g.Rng.Intn(3)
		for i := 0; i < n; i++ {
			op.Cols = append(op.Cols, g.namedCol(depth, 3))
		}
		if n == 0 || g.Rng.Intn(2) == 0 {
			op.HasBy = true
			m := 1 + g.Rng.Intn(2)
			for i := 0; i < m; i++ {
				op.By = append(op.By, g.namedCol(depth, 3))
			}
			if n > 0 && g.Rng.Intn(5) == 0 {
				op.CommaBy = true
			}
		}
	case "join":
		op.Kind = joinKinds[g.Rng.Intn(len(joinKinds))]
		op.Right = g.Pipe(g.Rng.Intn(3), depth, joinDepth-1)
		n := 1 + g.Rng.Intn(2)
		for i := 0; i < n; i++ {
			switch g.Rng.Intn(3) {
			case 0:
				op.Conds = append(op.Conds, &E{K: "name", Parts: []Ident{g.Ident()}})
			case 1:
				l := &E{K: "name", Parts: []Ident{{Name: "$left"}, g.Ident()}}
				r := &E{K: "name", Parts: []Ident{{Name: "$right"}, g.Ident()}}
				if g.Rng.Intn(2) == 0 {
					l, r = r, l
				}
				op.Conds = append(op.Conds, g.Surface(Bin("==", l, r), 8))
			default:
				op.Conds = append(op.Conds, g.sexpr(depth))
			}
		}
	case "as":
		op.Name = g.Ident()
	case "render":
		op.Name = g.Ident()
		if g.Rng.Intn(2) == 0 {
			op.With = true
			n := 1 + g.Rng.Intn(3)
			for i := 0; i < n; i++ {
				op.Props = append(op.Props, Prop{Name: g.Ident(), Val: g.sexpr(1)})
			}
		}
	}
	return op
}

func (g *Syn) rowCount(depth int) *E {
	switch g.Rng.Intn(4) {
	case 0:
		e := g.sexpr(depth)
		if e.K == "num" || e.K == "str" {
			// a bare literal row count must be an integer literal
			return Num(fmt.Sprint(g.Rng.Intn(100)))
		}
		return e
	case 1:
		return &E{K: "name", Parts: []Ident{g.BareIdent()}}
	default:
		if g.Rng.Intn(4) == 0 {
			return Num(g.pick(synInts))
		}
		return Num(fmt.Sprint(g.Rng.Intn(100)))
	}
}

// Pipe makes a random tabular expression with nops operators.
func (g *Syn) Pipe(nops, depth, joinDepth int) *Pipe {
	p := &Pipe{Table: g.Ident()}
	for !p.Table.Quoted && p.Table.Name == "let" {
		// a statement that starts with the bare word let is a let statement
		p.Table = g.Ident()
	}
	for i := 0; i < nops; i++ {
		p.Ops = append(p.Ops, g.Op("", depth, joinDepth))
	}
	return p
}

// Program makes a random statement list: lets and tabular statements with
// empty statements sprinkled in.
func (g *Syn) Program(maxStmts, maxOps, depth int) *Program {
	n := 1 + g.Rng.Intn(maxStmts)
	pr := &Program{}
	for i := 0; i < n; i++ {
		if g.Rng.Intn(3) == 0 {
			id := g.BareIdent()
			pr.Stmts = append(pr.Stmts, &Stmt{LetName: &id, LetX: g.sexpr(depth)})
		} else {
			pr.Stmts = append(pr.Stmts, &Stmt{Pipe: g.Pipe(g.Rng.Intn(maxOps+1), depth, 2)})
		}
	}
	if g.Rng.Intn(3) == 0 {
		pr.Empties = make([]int, n+1)
		for i := range pr.Empties {
			if g.Rng.Intn(3) == 0 {
				pr.Empties[i] = 1 + g.Rng.Intn(2)
			}
		}
	}
	pr.TrailSemi = g.Rng.Intn(3) == 0
	return pr
}
