package gen

import (
	"fmt"
	"math/rand"
	"sort"
	"strings"

	. "verif/harness/pqlref"
	"verif/harness/val"
)

// SCol is a column of a tracked schema.
type SCol struct {
	Name Ident
	Ty   Ty
	// Amb: the name occurs twice (after a join): it must not be referenced.
	Amb bool
}

// Schema is the ordered column list of an intermediate result.
type Schema []SCol

func (s Schema) cols() map[Ty][]Ident {
	m := map[Ty][]Ident{}
	for _, c := range s {
		if !c.Amb {
			m[c.Ty] = append(m[c.Ty], c.Name)
		}
	}
	return m
}

func (s Schema) has(name string) bool {
	for _, c := range s {
		if c.Name.Name == name {
			return true
		}
	}
	return false
}

func (s Schema) usable(name string) bool {
	for _, c := range s {
		if c.Name.Name == name && !c.Amb {
			return true
		}
	}
	return false
}

// BaseSchemas are the tables of the pipeline checks. Left and right column
// sets are disjoint except for the key names k, j and Null (a case variant of a
// built-in constant is an ordinary name).
var BaseSchemas = map[string]Schema{
	"T": {{Ident{Name: "id"}, TInt, false}, {Ident{Name: "k"}, TInt, false}, {Ident{Name: "j"}, TInt, false}, {Ident{Name: "ia"}, TInt, false},
		{Ident{Name: "sa"}, TStr, false}, {Ident{Name: "ba"}, TBool, false}, {Ident{Name: "ma"}, TArr, false}, {Ident{Name: "K"}, TInt, false}, {Ident{Name: "Sa"}, TStr, false},
		{Ident{Name: "Null"}, TInt, false}},
	"U": {{Ident{Name: "uid"}, TInt, false}, {Ident{Name: "k"}, TInt, false}, {Ident{Name: "j"}, TInt, false}, {Ident{Name: "ub"}, TInt, false},
		{Ident{Name: "us"}, TStr, false}, {Ident{Name: "Null"}, TInt, false}},
	"V": {{Ident{Name: "vid"}, TInt, false}, {Ident{Name: "k"}, TInt, false}, {Ident{Name: "vs"}, TStr, false}},
}

// PipeGen generates well-typed pipelines with a schema tracked through the
// operators, so that every argument refers to columns that exist and no
// alias shadows a column in scope.
type PipeGen struct {
	Rng   *rand.Rand
	fresh int
	asN   int
	// Bound: let/parameter names by type, usable in expressions.
	Bound map[Ty][]string
	// MaxDepth of generated expressions.
	MaxDepth int
	// DetSort: probability (percent) that a sort before/inside a limit is made
	// total by appending the unique id column.
	DetSort int
	// named: schemas of the results named by `as` so far (readable by later
	// right-hand pipelines)
	named map[string]Schema
}

func (g *PipeGen) eg(s Schema, agg bool) *ExprGen {
	return &ExprGen{Rng: g.Rng, Cols: s.cols(), Bound: g.Bound, Agg: agg}
}

func (g *PipeGen) freshName(s Schema) Ident {
	for {
		g.fresh++
		n := fmt.Sprintf("n%d", g.fresh)
		if g.Rng.Intn(6) == 0 {
			n = fmt.Sprintf("q %d", g.fresh)
			if !s.has(n) {
				return Ident{Name: n, Quoted: true}
			}
			continue
		}
		if !s.has(n) {
			return Ident{Name: n}
		}
	}
}

func (g *PipeGen) expr(s Schema, t Ty) *E {
	d := g.MaxDepth
	if d <= 0 {
		d = 3
	}
	return Parenthesize(g.eg(s, false).Gen(t, g.Rng.Intn(d+1)), func() bool { return g.Rng.Intn(9) == 0 })
}

func (g *PipeGen) uniqueKey(s Schema) *E {
	for _, n := range []string{"id", "uid", "vid"} {
		if s.usable(n) {
			return Name(n)
		}
	}
	return nil
}

func (g *PipeGen) sortTerms(s Schema, forceTotal bool) []SortTerm {
	var ts []SortTerm
	n := 1 + g.Rng.Intn(2)
	for i := 0; i < n; i++ {
		t := []Ty{TInt, TInt, TStr, TBool}[g.Rng.Intn(4)]
		var x *E
		if cols := s.cols()[t]; len(cols) > 0 && g.Rng.Intn(3) != 0 {
			x = &E{K: "name", Parts: []Ident{cols[g.Rng.Intn(len(cols))]}}
			if g.Rng.Intn(4) == 0 {
				// a column under one order-reversing or order-keeping operator
				// (NULL stays NULL, so NULL placement must not follow the reversal)
				switch t {
				case TInt:
					x = []*E{Un("-", x), Bin("*", x, Un("-", Num("1"))), Bin("-", Num("0"), x), Bin("+", x, Num("1"))}[g.Rng.Intn(4)]
				case TBool:
					x = Call("not", x)
				case TStr:
					x = Call([]string{"tolower", "toupper"}[g.Rng.Intn(2)], x)
				}
			}
		} else {
			x = g.expr(s, t)
			if x.K == "num" || (x.K == "name" && len(x.Parts) == 1 && len(g.Bound) > 0) {
				// integer literals (directly or through a binding) as sort keys
				// are positional in SQL: not generated
				x = Bin("+", x, Num("0"))
			}
		}
		ts = append(ts, SortTerm{X: x, Dir: []string{"", "asc", "desc"}[g.Rng.Intn(3)], Nulls: []string{"", "", "first", "last"}[g.Rng.Intn(4)]})
	}
	if forceTotal {
		if u := g.uniqueKey(s); u != nil {
			ts = append(ts, SortTerm{X: u, Dir: []string{"", "asc", "desc"}[g.Rng.Intn(3)]})
		}
	}
	return ts
}

var takeCounts = []string{"0", "1", "2", "3", "5", "100", "007", "0x2", "1", "2", "3", "4294967296", "9223372036854775807", "18446744073709551615", "18446744073709551616", "99999999999999999999999"}

// Op generates one operator of the given kind over schema s and returns the
// resulting schema.
func (g *PipeGen) Op(kind string, s Schema, joinDepth int) (*Op, Schema) {
	op := &Op{K: kind}
	det := g.Rng.Intn(100) < g.DetSort
	switch kind {
	case "count":
		return op, Schema{{Ident{Name: "count()", Quoted: true}, TInt, false}}
	case "where":
		op.X = g.expr(s, TBool)
		return op, s
	case "sort":
		op.Terms = g.sortTerms(s, det)
		return op, s
	case "take":
		op.X = Num(takeCounts[g.Rng.Intn(len(takeCounts))])
		if l := g.Bound[TInt]; len(l) > 0 && g.Rng.Intn(4) == 0 {
			op.X = Name(l[g.Rng.Intn(len(l))])
		}
		return op, s
	case "top":
		op.X = Num(takeCounts[g.Rng.Intn(len(takeCounts))])
		ts := g.sortTerms(s, false)
		op.Terms = ts[:1]
		if det {
			if u := g.uniqueKey(s); u != nil && g.Rng.Intn(2) == 0 {
				op.Terms = []SortTerm{{X: u, Dir: []string{"", "asc", "desc"}[g.Rng.Intn(3)]}}
			}
		}
		return op, s
	case "project":
		var ns Schema
		n := 1 + g.Rng.Intn(3)
		used := map[string]bool{}
		for i := 0; i < n; i++ {
			if g.Rng.Intn(2) == 0 {
				// an existing column by name
				var cand []SCol
				for _, c := range s {
					if !c.Amb && !used[c.Name.Name] {
						cand = append(cand, c)
					}
				}
				if len(cand) > 0 {
					c := cand[g.Rng.Intn(len(cand))]
					id := c.Name
					op.Cols = append(op.Cols, Col{Name: &id})
					ns = append(ns, SCol{c.Name, c.Ty, false})
					used[c.Name.Name] = true
					continue
				}
			}
			t := Ty(g.Rng.Intn(3))
			if g.Rng.Intn(4) == 0 {
				// redefine an existing column from its own old value: x = f(x)
				var cand []SCol
				for _, c := range s {
					if !c.Amb && !used[c.Name.Name] && c.Ty != TArr && c.Name.Name != "id" {
						cand = append(cand, c)
					}
				}
				if len(cand) > 0 {
					c := cand[g.Rng.Intn(len(cand))]
					cx := &E{K: "name", Parts: []Ident{c.Name}}
					var x *E
					switch c.Ty {
					case TInt:
						x = Bin("+", cx, Num("1"))
						// or from another column, or with the order of its values reversed
						// (an earlier sort by this name says nothing about the new column)
						switch (len(cand) + len(s) + i) % 3 {
						case 1:
							x = Bin("-", Num("0"), cx)
						case 2:
							for _, o := range cand {
								if o.Ty == TInt && o.Name.Name != c.Name.Name {
									x = &E{K: "name", Parts: []Ident{o.Name}}
								}
							}
						}
					case TStr:
						x = Call("strcat", cx, StrLit("x", false))
					default:
						x = Call("not", cx)
					}
					id := c.Name
					op.Cols = append(op.Cols, Col{Name: &id, X: x})
					ns = append(ns, SCol{c.Name, c.Ty, false})
					used[c.Name.Name] = true
					continue
				}
			}
			id := g.freshName(append(s, ns...))
			op.Cols = append(op.Cols, Col{Name: &id, X: g.expr(s, t)})
			ns = append(ns, SCol{id, t, false})
			used[id.Name] = true
		}
		// keep a unique key when there is one, most of the time
		if u := g.uniqueKey(s); u != nil && !used[u.Parts[0].Name] && g.Rng.Intn(3) != 0 {
			id := u.Parts[0]
			op.Cols = append(op.Cols, Col{Name: &id})
			ns = append(ns, SCol{id, TInt, false})
		}
		return op, ns
	case "extend":
		ns := append(Schema{}, s...)
		n := 1 + g.Rng.Intn(2)
		for i := 0; i < n; i++ {
			t := Ty(g.Rng.Intn(3))
			x := g.expr(s, t)
			if g.Rng.Intn(4) == 0 && !(x.K == "name" || x.K == "paren") && !looksImplicit(ns) {
				// unnamed: the column is called like its source text (parentheses included)
				if (len(ns)+len(x.Kids)+i)%3 == 0 {
					x = Paren(x)
				}
				op.Cols = append(op.Cols, Col{X: x})
				ns = append(ns, SCol{Ident{Name: "\x00implicit"}, t, true})
				continue
			}
			id := g.freshName(ns)
			op.Cols = append(op.Cols, Col{Name: &id, X: x})
			ns = append(ns, SCol{id, t, false})
		}
		return op, ns
	case "summarize":
		var ns Schema
		nk := g.Rng.Intn(3)
		usedKey := map[string]bool{}
		for i := 0; i < nk; i++ {
			var cand []SCol
			for _, c := range s {
				if !c.Amb && c.Ty != TArr && !usedKey[c.Name.Name] {
					cand = append(cand, c)
				}
			}
			if len(cand) > 0 && g.Rng.Intn(3) != 0 {
				c := cand[g.Rng.Intn(len(cand))]
				usedKey[c.Name.Name] = true
				x := &E{K: "name", Parts: []Ident{c.Name}}
				if g.Rng.Intn(3) == 0 {
					id := g.freshName(append(s, ns...))
					op.By = append(op.By, Col{Name: &id, X: x})
					ns = append(ns, SCol{id, c.Ty, false})
				} else if !c.Name.Quoted {
					op.By = append(op.By, Col{X: x})
					ns = append(ns, SCol{c.Name, c.Ty, false})
				} else {
					id := c.Name
					op.By = append(op.By, Col{Name: &id, X: x})
					ns = append(ns, SCol{c.Name, c.Ty, false})
				}
				continue
			}
			t := []Ty{TInt, TBool, TStr}[g.Rng.Intn(3)]
			x := g.expr(s, t)
			if x.K == "num" || x.K == "name" {
				x = Bin("%", Name("id"), Num("2"))
				if !s.usable("id") {
					continue
				}
				t = TInt
			}
			id := g.freshName(append(s, ns...))
			op.By = append(op.By, Col{Name: &id, X: x})
			ns = append(ns, SCol{id, t, false})
		}
		op.HasBy = len(op.By) > 0
		na := 1 + g.Rng.Intn(3)
		if len(op.By) > 0 && g.Rng.Intn(5) == 0 {
			na = 0
		}
		if g.Rng.Intn(12) == 0 {
			na = 9 + g.Rng.Intn(8) // a wide summarize: more than a dozen output columns
		}
		ints := s.cols()[TInt]
		bools := s.cols()[TBool]
		for i := 0; i < na; i++ {
			var x *E
			switch g.Rng.Intn(5) {
			case 0:
				if len(bools) > 0 {
					x = Call("countif", &E{K: "name", Parts: []Ident{bools[g.Rng.Intn(len(bools))]}})
				} else {
					x = Call("countif", g.expr(s, TBool))
				}
			case 1, 2:
				if len(ints) > 0 {
					x = Call([]string{"sum", "min", "max"}[g.Rng.Intn(3)], &E{K: "name", Parts: []Ident{ints[g.Rng.Intn(len(ints))]}})
				}
			case 3:
				if len(ints) > 0 {
					x = Bin("+", Call("count"), Call("max", &E{K: "name", Parts: []Ident{ints[g.Rng.Intn(len(ints))]}}))
				}
			}
			if x == nil {
				x = Call("count")
			}
			if g.Rng.Intn(3) == 0 && !looksImplicit(ns) {
				if (len(ns)+i+na)%3 == 0 {
					x = Paren(x)
				}
				op.Cols = append(op.Cols, Col{X: x})
				ns = append(ns, SCol{Ident{Name: "\x00implicit"}, TInt, true})
			} else {
				id := g.freshName(append(s, ns...))
				op.Cols = append(op.Cols, Col{Name: &id, X: x})
				ns = append(ns, SCol{id, TInt, false})
			}
		}
		if op.HasBy && len(op.Cols) > 0 && g.Rng.Intn(6) == 0 {
			op.CommaBy = true
		}
		return op, ns
	case "as":
		g.asN++
		op.Name = Ident{Name: fmt.Sprintf("Stage%d_%d", g.asN, g.Rng.Intn(1000))}
		if g.named == nil {
			g.named = map[string]Schema{}
		}
		clean := true
		for _, c := range s {
			if c.Amb {
				clean = false
			}
		}
		if clean {
			g.named[op.Name.Name] = append(Schema{}, s...)
		}
		return op, s
	case "render":
		op.Name = Ident{Name: []string{"barchart", "piechart", "table"}[g.Rng.Intn(3)]}
		ns := append(Schema{}, s...)
		hasRender := false
		for _, c := range s {
			if strings.HasPrefix(c.Name.Name, "render_") {
				hasRender = true
			}
		}
		if hasRender {
			// a second render would repeat its column names
			return g.Op("where", s, joinDepth)
		}
		ns = append(ns, SCol{Ident{Name: "render_type"}, TStr, false})
		if g.Rng.Intn(2) == 0 {
			op.With = true
			names := []string{"title", "kind", "xtitle"}
			g.Rng.Shuffle(len(names), func(i, j int) { names[i], names[j] = names[j], names[i] })
			for i := 0; i < 1+g.Rng.Intn(2); i++ {
				v := []*E{StrLit("My 'Title'", true), Num("3"), Name("stacked"), StrLit("a\\b", false)}[g.Rng.Intn(4)]
				op.Props = append(op.Props, Prop{Name: Ident{Name: names[i]}, Val: v})
				ns = append(ns, SCol{Ident{Name: "render_prop_" + names[i]}, TStr, false})
			}
		}
		return op, ns
	case "join":
		return g.join(s, joinDepth)
	}
	panic("gen: operator kind " + kind)
}

// WideOp makes a project / extend / sort / summarize with n elements over s.
func (g *PipeGen) WideOp(kind string, n int, s Schema) (*Op, Schema) {
	op := &Op{K: kind}
	usable := []SCol{}
	for _, c := range s {
		if !c.Amb && c.Ty != TArr {
			usable = append(usable, c)
		}
	}
	if len(usable) == 0 {
		return g.Op("count", s, 0)
	}
	ref := func(i int) (SCol, *E) {
		c := usable[i%len(usable)]
		return c, &E{K: "name", Parts: []Ident{c.Name}}
	}
	switch kind {
	case "project", "extend":
		var ns Schema
		if kind == "extend" {
			ns = append(ns, s...)
		}
		for i := 0; i < n; i++ {
			c, x := ref(i)
			id := g.freshName(append(append(Schema{}, s...), ns...))
			if c.Ty == TInt {
				x = Bin("+", x, Num(fmt.Sprint(i)))
			}
			op.Cols = append(op.Cols, Col{Name: &id, X: x})
			ns = append(ns, SCol{id, c.Ty, false})
		}
		if u := g.uniqueKey(s); u != nil && kind == "project" {
			id := u.Parts[0]
			op.Cols = append(op.Cols, Col{Name: &id})
			ns = append(ns, SCol{id, TInt, false})
		}
		return op, ns
	case "sort":
		for i := 0; i < n; i++ {
			_, x := ref(i)
			op.Terms = append(op.Terms, SortTerm{X: x, Dir: []string{"", "asc", "desc"}[i%3], Nulls: []string{"", "first", "last", ""}[i%4]})
		}
		if u := g.uniqueKey(s); u != nil {
			op.Terms = append(op.Terms, SortTerm{X: u})
		}
		return op, s
	default: // summarize: n aggregates by two keys
		var ns Schema
		op.K = "summarize"
		op.HasBy = true
		for i := 0; i < 2; i++ {
			c, x := ref(i + 1)
			id := g.freshName(append(append(Schema{}, s...), ns...))
			op.By = append(op.By, Col{Name: &id, X: x})
			ns = append(ns, SCol{id, c.Ty, false})
		}
		ints := s.cols()[TInt]
		for i := 0; i < n; i++ {
			var x *E
			if len(ints) > 0 && i%4 != 0 {
				x = Call([]string{"sum", "min", "max"}[i%3], &E{K: "name", Parts: []Ident{ints[i%len(ints)]}})
			} else {
				x = Call("count")
			}
			id := g.freshName(append(append(Schema{}, s...), ns...))
			op.Cols = append(op.Cols, Col{Name: &id, X: x})
			ns = append(ns, SCol{id, TInt, false})
		}
		return op, ns
	}
}

// Kinds are the eleven tabular operators without join.
var Kinds = []string{"count", "where", "sort", "take", "top", "project", "extend", "summarize", "as", "render", "where"}

// Pipe generates a pipeline over a base table with the given operator kinds.
func (g *PipeGen) Pipe(table string, kinds []string, joinDepth int) (*Pipe, Schema) {
	s := append(Schema{}, BaseSchemas[table]...)
	p := &Pipe{Table: Ident{Name: table}}
	for _, k := range kinds {
		var op *Op
		op, s = g.Op(k, s, joinDepth)
		p.Ops = append(p.Ops, op)
	}
	return p, s
}

func (g *PipeGen) join(s Schema, joinDepth int) (*Op, Schema) {
	op := &Op{K: "join", Kind: []string{"", "inner", "innerunique", "leftouter"}[g.Rng.Intn(4)]}
	// right-hand pipeline over another table
	tables := []string{"U", "V", "U"}
	rt := tables[g.Rng.Intn(len(tables))]
	var rkinds []string
	for n := g.Rng.Intn(3); n > 0; n-- {
		k := []string{"where", "project", "extend", "sort", "take", "summarize", "as", "top", "count"}[g.Rng.Intn(9)]
		rkinds = append(rkinds, k)
	}
	if joinDepth > 0 && g.Rng.Intn(3) == 0 {
		if g.Rng.Intn(2) == 0 {
			rkinds = append([]string{"join"}, rkinds...) // the right-hand side starts with a join of its own
		} else {
			rkinds = append(rkinds, "join")
		}
	}
	var rp *Pipe
	var rs Schema
	if len(g.named) > 0 && g.Rng.Intn(3) == 0 {
		// read a result named by an earlier `as` (a self-join when it is this pipeline's own)
		var names []string
		for n := range g.named {
			names = append(names, n)
		}
		sort.Strings(names)
		rt = names[g.Rng.Intn(len(names))]
		rs = append(Schema{}, g.named[rt]...)
		rp = &Pipe{Table: Ident{Name: rt}}
		for _, k := range rkinds {
			if k == "join" || k == "as" {
				continue
			}
			var rop *Op
			rop, rs = g.Op(k, rs, 0)
			rp.Ops = append(rp.Ops, rop)
		}
	} else {
		rp, rs = g.Pipe(rt, rkinds, joinDepth-1)
	}
	op.Right = rp
	// condition forms over columns usable on both sides
	var lInts, rInts []Ident
	for _, c := range s {
		if !c.Amb && c.Ty == TInt {
			lInts = append(lInts, c.Name)
		}
	}
	for _, c := range rs {
		if !c.Amb && c.Ty == TInt {
			rInts = append(rInts, c.Name)
		}
	}
	var common []Ident
	for _, l := range lInts {
		for _, r := range rInts {
			if l == r && !l.Quoted {
				common = append(common, l)
			}
		}
	}
	q := func(side string, id Ident) *E { return &E{K: "name", Parts: []Ident{{Name: side}, id}} }
	nconds := 1 + g.Rng.Intn(2)
	for i := 0; i < nconds; i++ {
		switch {
		case len(common) > 0 && g.Rng.Intn(3) == 0:
			op.Conds = append(op.Conds, &E{K: "name", Parts: []Ident{common[g.Rng.Intn(len(common))]}})
		case len(lInts) > 0 && len(rInts) > 0:
			l, r := q("$left", lInts[g.Rng.Intn(len(lInts))]), q("$right", rInts[g.Rng.Intn(len(rInts))])
			switch g.Rng.Intn(6) {
			case 0:
				op.Conds = append(op.Conds, Bin("==", r, l))
			case 1:
				cmp := []string{"<", "<=", ">", ">=", "!=", "=="}[g.Rng.Intn(6)]
				c := Bin(cmp, l, r)
				if g.Rng.Intn(2) == 0 {
					c = Bin(cmp, r, l)
				}
				if cmp != "==" && g.Rng.Intn(3) == 0 {
					// below not(): a comparison that is FALSE on NULL operands becomes TRUE
					c = Call("not", c)
				}
				op.Conds = append(op.Conds, c)
			case 2:
				if g.Rng.Intn(2) == 0 {
					// a condition on one side only, bare or under not(), beside the others
					one := []*E{Bin("==", l, Num("1")), Call("not", Bin("==", l, Num("1"))), Bin("!=", r, Num("0")), Call("isnull", l), Call("not", Call("isnull", r)), Bin(">", r, Num("0"))}[g.Rng.Intn(6)]
					op.Conds = append(op.Conds, one)
					break
				}
				op.Conds = append(op.Conds, Bin("==", l, Bin("+", r, Num("1"))))
			case 3:
				op.Conds = append(op.Conds, Bin("and", Bin("==", l, r), Bin(">", l, Num("0"))))
			default:
				op.Conds = append(op.Conds, Bin("==", l, r))
			}
		default:
			op.Conds = append(op.Conds, Name("true"))
		}
	}
	// a second condition over the same column names as an earlier one: the
	// same equality again, its sides reversed, or the two names crosswise
	// ($left.a == $right.b, $left.b == $right.a) where both sides have both
	if g.Rng.Intn(5) == 0 {
		has := func(l []Ident, id Ident) bool {
			for _, x := range l {
				if x == id {
					return true
				}
			}
			return false
		}
		for _, c := range op.Conds {
			if c.K != "bin" || c.Op != "==" || c.Kids[0].K != "name" || c.Kids[1].K != "name" || len(c.Kids[0].Parts) != 2 || len(c.Kids[1].Parts) != 2 {
				continue
			}
			a, b := c.Kids[0], c.Kids[1]
			if a.Parts[0].Name != "$left" {
				a, b = b, a
			}
			switch g.Rng.Intn(3) {
			case 0:
				op.Conds = append(op.Conds, Bin("==", a, b))
			case 1:
				op.Conds = append(op.Conds, Bin("==", b, a))
			default:
				if has(lInts, b.Parts[1]) && has(rInts, a.Parts[1]) {
					op.Conds = append(op.Conds, Bin("==", q("$left", b.Parts[1]), q("$right", a.Parts[1])))
				}
			}
			break
		}
	}
	for i, c := range op.Conds {
		op.Conds[i] = Parenthesize(c, nil)
	}
	// result schema: left then right; names on both sides become ambiguous
	ns := append(Schema{}, s...)
	for _, c := range rs {
		ns = append(ns, c)
	}
	count := map[string]int{}
	for _, c := range ns {
		count[c.Name.Name]++
	}
	for i := range ns {
		if count[ns[i].Name.Name] > 1 {
			ns[i].Amb = true
		}
	}
	return op, ns
}

// --- database instances ---------------------------------------------------

func pickV(rng *rand.Rand, t Ty, nullPct int) val.V {
	if rng.Intn(100) < nullPct {
		return val.NULL
	}
	switch t {
	case TStr:
		return val.S([]string{"", "a", "A", "b", "Ab", "ab"}[rng.Intn(6)])
	case TBool:
		return val.B(rng.Intn(2) == 0)
	case TArr:
		return []val.V{val.A(val.I(1), val.I(2), val.I(3)), val.A(val.I(0), val.I(-1)), val.A()}[rng.Intn(3)]
	}
	return val.I(int64(rng.Intn(5) - 1))
}

// DB makes a small database instance: tables T, U, V of 0–6 rows with
// unique ids, few distinct key values, duplicates of whole rows (except the
// id), ties and NULLs.
func DB(rng *rand.Rand) map[string]*RTable {
	db := map[string]*RTable{}
	var tnames []string
	for name := range BaseSchemas {
		tnames = append(tnames, name)
	}
	sort.Strings(tnames)
	for _, name := range tnames {
		sch := BaseSchemas[name]
		t := &RTable{}
		for _, c := range sch {
			t.Cols = append(t.Cols, c.Name.Name)
		}
		n := rng.Intn(7)
		if rng.Intn(8) == 0 {
			n = 0
		}
		dupRows := rng.Intn(2) == 0
		for i := 0; i < n; i++ {
			var row []val.V
			if dupRows && i > 0 && rng.Intn(2) == 0 {
				// duplicate of an earlier row
				src := t.Rows[rng.Intn(len(t.Rows))]
				row = append([]val.V{}, src...)
				if !(rng.Intn(2) == 0) {
					row[0] = val.I(int64(i + 1))
				}
				t.Rows = append(t.Rows, row)
				continue
			}
			for ci, c := range sch {
				switch {
				case ci == 0:
					row = append(row, val.I(int64(i+1)))
				case c.Name.Name == "k" || c.Name.Name == "j" || c.Name.Name == "K" || c.Name.Name == "Null":
					if rng.Intn(6) == 0 {
						row = append(row, val.NULL)
					} else {
						row = append(row, val.I(int64(rng.Intn(3))))
					}
				default:
					row = append(row, pickV(rng, c.Ty, 15))
				}
			}
			t.Rows = append(t.Rows, row)
		}
		db[name] = t
	}
	return db
}

// looksImplicit reports whether a schema has a named column whose name could be
// the source text of an expression (the count operator's "count()", say): an
// unnamed column beside it could repeat that name, and a relation with two
// columns of one name has no meaning to compare against.
func looksImplicit(s Schema) bool {
	for _, c := range s {
		if !c.Amb && strings.ContainsAny(c.Name.Name, "()") {
			return true
		}
	}
	return false
}
