package gen

import "math/rand"

// RNG derives an independent deterministic stream from (seed, label).
func RNG(seed int64, label string) *rand.Rand {
	h := uint64(seed)*0x9E3779B97F4A7C15 + 0x1234567
	for i := 0; i < len(label); i++ {
		h = (h ^ uint64(label[i])) * 0x100000001B3
	}
	return rand.New(rand.NewSource(int64(h & 0x7fffffffffffffff)))
}

// EnumStrings calls fn for every non-empty concatenation of at most maxLen
// symbols of alpha, in length-lexicographic order. fn returns false to stop.
func EnumStrings(alpha []string, maxLen int, fn func(s string) bool) {
	buf := make([]byte, 0, 64)
	var rec func(depth int) bool
	rec = func(depth int) bool {
		if depth > 0 {
			if !fn(string(buf)) {
				return false
			}
		}
		if depth == maxLen {
			return true
		}
		for _, a := range alpha {
			n := len(buf)
			buf = append(buf, a...)
			if !rec(depth + 1) {
				return false
			}
			buf = buf[:n]
		}
		return true
	}
	rec(0)
}
