package gen

import (
	"fmt"
	"math/rand"

	. "verif/harness/pqlref"
)

// Valid generates programs that break none of the documented compile rules:
// exactly one tabular statement, let values closed over earlier bindings,
// built-ins with the right number of arguments, $left/$right only in join
// conditions, known join kinds, integer literal row counts. Typing and
// column existence are irrelevant to those rules.
type Valid struct {
	Rng *rand.Rand
}

func (g *Valid) exprGen(bound map[Ty][]string, agg bool) *ExprGen {
	return &ExprGen{Rng: g.Rng, Cols: DefaultCols(), Bound: bound, IllTyped: 6, Agg: agg}
}

func (g *Valid) sx(eg *ExprGen, depth int) *E {
	return Parenthesize(eg.Gen(Ty(g.Rng.Intn(3)), g.Rng.Intn(depth+1)), func() bool { return g.Rng.Intn(7) == 0 })
}

func (g *Valid) ident() Ident {
	names := []string{"x", "y", "ia", "sa", "r", "n1", "Total", "where", "kind", "on"}
	if g.Rng.Intn(6) == 0 {
		return Ident{Name: []string{"a b", "x`y", "é", "sel'ect"}[g.Rng.Intn(4)], Quoted: true}
	}
	return Ident{Name: names[g.Rng.Intn(len(names))]}
}

func (g *Valid) sortTerm(eg *ExprGen, depth int) SortTerm {
	return SortTerm{X: g.sx(eg, depth), Dir: []string{"", "asc", "desc"}[g.Rng.Intn(3)], Nulls: []string{"", "", "first", "last"}[g.Rng.Intn(4)]}
}

func (g *Valid) rowCount(bound map[Ty][]string) *E {
	if l := bound[TInt]; len(l) > 0 && g.Rng.Intn(3) == 0 {
		return Name(l[g.Rng.Intn(len(l))])
	}
	switch g.Rng.Intn(9) {
	case 6:
		return Num([]string{"18446744073709551615", "18446744073709551616", "99999999999999999999999999", "9223372036854775808", "0xffffffffffffffff", "000000000000000000000000000000007"}[g.Rng.Intn(6)])
	case 0:
		return Num("0x10")
	case 1:
		return Num("007")
	case 2:
		return Paren(Bin("+", Num("1"), Num("2")))
	}
	return Num(fmt.Sprint(g.Rng.Intn(50)))
}

// Pipe makes a valid tabular expression.
func (g *Valid) Pipe(nops, depth, joinDepth int, bound map[Ty][]string) *Pipe {
	tables := []string{"T", "U", "Events", "t2", "set", "distinct"}
	p := &Pipe{Table: Ident{Name: tables[g.Rng.Intn(len(tables))]}}
	if g.Rng.Intn(8) == 0 {
		// quoted table names: with a blank, spelled like keywords and operators, like the compiler's own names
		p.Table = Ident{Name: []string{"my table", "let", "where", "join", "count()", "$left", "by", "and", "T;U"}[g.Rng.Intn(9)], Quoted: true}
	}
	kinds := []string{"count", "where", "where", "sort", "take", "top", "project", "extend", "summarize", "join", "as", "render"}
	for i := 0; i < nops; i++ {
		k := kinds[g.Rng.Intn(len(kinds))]
		if k == "join" && joinDepth <= 0 {
			k = "where"
		}
		eg := g.exprGen(bound, false)
		op := &Op{K: k}
		switch k {
		case "where":
			op.X = Parenthesize(eg.Gen(TBool, g.Rng.Intn(depth+1)), func() bool { return g.Rng.Intn(7) == 0 })
		case "sort":
			for n := 1 + g.Rng.Intn(3); n > 0; n-- {
				op.Terms = append(op.Terms, g.sortTerm(eg, depth))
			}
		case "take":
			op.X = g.rowCount(bound)
		case "top":
			op.X = g.rowCount(bound)
			op.Terms = []SortTerm{g.sortTerm(eg, depth)}
		case "project":
			for n := 1 + g.Rng.Intn(3); n > 0; n-- {
				id := g.ident()
				c := Col{Name: &id}
				if g.Rng.Intn(3) != 0 {
					c.X = g.sx(eg, depth)
				}
				op.Cols = append(op.Cols, c)
			}
		case "extend":
			for n := 1 + g.Rng.Intn(3); n > 0; n-- {
				c := Col{X: g.sx(eg, depth)}
				if g.Rng.Intn(3) != 0 {
					id := g.ident()
					c.Name = &id
				}
				op.Cols = append(op.Cols, c)
			}
		case "summarize":
			ag := g.exprGen(bound, true)
			nc := g.Rng.Intn(3)
			for n := nc; n > 0; n-- {
				c := Col{X: g.sx(ag, depth)}
				if g.Rng.Intn(3) != 0 {
					id := g.ident()
					c.Name = &id
				}
				op.Cols = append(op.Cols, c)
			}
			if nc == 0 || g.Rng.Intn(2) == 0 {
				op.HasBy = true
				for n := 1 + g.Rng.Intn(2); n > 0; n-- {
					c := Col{X: g.sx(eg, depth)}
					if g.Rng.Intn(3) != 0 {
						id := g.ident()
						c.Name = &id
					}
					op.By = append(op.By, c)
				}
			}
		case "join":
			op.Kind = []string{"", "inner", "innerunique", "leftouter"}[g.Rng.Intn(4)]
			op.Right = g.Pipe(g.Rng.Intn(3), depth, joinDepth-1, bound)
			for n := 1 + g.Rng.Intn(2); n > 0; n-- {
				switch g.Rng.Intn(3) {
				case 0:
					op.Conds = append(op.Conds, Name([]string{"k", "id", "j"}[g.Rng.Intn(3)]))
				case 1:
					op.Conds = append(op.Conds, Bin("==", Name("$left", "k"), Name("$right", "j")))
				default:
					bn := map[string]bool{}
					for _, l := range bound {
						for _, n := range l {
							bn[n] = true
						}
					}
					jeg := *eg
					jeg.Agg = g.Rng.Intn(3) == 0 // built-ins such as countif are legal inside a join condition too
					x := joinQualify(jeg.Gen(TBool, g.Rng.Intn(depth+1)), bn, g.Rng)
					op.Conds = append(op.Conds, Parenthesize(x, nil))
				}
			}
		case "as":
			op.Name = Ident{Name: fmt.Sprintf("S%d", g.Rng.Intn(1000))}
		case "render":
			op.Name = Ident{Name: []string{"barchart", "piechart", "table"}[g.Rng.Intn(3)]}
			if g.Rng.Intn(2) == 0 {
				op.With = true
				for n := 1 + g.Rng.Intn(2); n > 0; n-- {
					v := []*E{Str(`"Title"`, "Title"), Num("3"), Name("stacked")}[g.Rng.Intn(3)]
					op.Props = append(op.Props, Prop{Name: Ident{Name: []string{"title", "kind", "xtitle"}[g.Rng.Intn(3)]}, Val: v})
				}
			}
		}
		p.Ops = append(p.Ops, op)
	}
	return p
}

func joinQualify(x *E, bound map[string]bool, rng *rand.Rand) *E {
	c := *x
	if x.K == "name" {
		if len(x.Parts) == 1 && !x.Parts[0].Quoted {
			n := x.Parts[0].Name
			if bound[n] || n == "true" || n == "false" || n == "null" {
				return &c
			}
		}
		c.Parts = append([]Ident{{Name: []string{"$left", "$right"}[rng.Intn(2)]}}, x.Parts...)
		return &c
	}
	c.Kids = nil
	for _, k := range x.Kids {
		c.Kids = append(c.Kids, joinQualify(k, bound, rng))
	}
	return &c
}

// Program makes a valid program: lets, one query, optionally lets after it.
func (g *Valid) Program() *Program {
	pr := &Program{}
	bound := map[Ty][]string{}
	names := []string{"p", "q", "v", "lim", "n", "threshold"}
	for k := g.Rng.Intn(3); k > 0; k-- {
		t := Ty(g.Rng.Intn(3))
		b2 := map[Ty][]string{}
		for tt, l := range bound {
			b2[tt] = append([]string{}, l...)
		}
		eg := &ExprGen{Rng: g.Rng, NoCols: true, Bound: b2}
		name := names[g.Rng.Intn(len(names))]
		x := Parenthesize(eg.Gen(t, g.Rng.Intn(3)), nil)
		pr.Stmts = append(pr.Stmts, &Stmt{LetName: &Ident{Name: name}, LetX: x})
		for tt, l := range bound {
			for j, n := range l {
				if n == name {
					bound[tt] = append(l[:j:j], l[j+1:]...)
					break
				}
			}
		}
		bound[t] = append(bound[t], name)
	}
	pr.Stmts = append(pr.Stmts, &Stmt{Pipe: g.Pipe(g.Rng.Intn(5), 3, 2, bound)})
	if g.Rng.Intn(5) == 0 {
		pr.Stmts = append(pr.Stmts, &Stmt{LetName: &Ident{Name: "after"}, LetX: Num("1")})
	}
	pr.TrailSemi = g.Rng.Intn(3) == 0
	return pr
}

// Slot is a place in a program where an expression sits.
type Slot struct {
	Get  func() *E
	Set  func(*E)
	Path string // syntactic context, e.g. "where", "join.right/where", "let"
	// InJoinCond: $left/$right are legal here.
	InJoinCond bool
	InLet      bool
	// Inert: the slot is not compiled as an expression (render property
	// values, lets written after the query).
	Inert bool
}

// Slots lists every expression slot of a program (top-level expressions of
// operators and lets), with its context path.
func Slots(p *Program) []Slot {
	var out []Slot
	var pipe func(t *Pipe, prefix string)
	pipe = func(t *Pipe, prefix string) {
		for _, op := range t.Ops {
			op := op
			path := prefix + op.K
			if op.X != nil {
				out = append(out, Slot{Get: func() *E { return op.X }, Set: func(e *E) { op.X = e }, Path: path})
			}
			for i := range op.Terms {
				i := i
				out = append(out, Slot{Get: func() *E { return op.Terms[i].X }, Set: func(e *E) { op.Terms[i].X = e }, Path: path + ".term"})
			}
			for i := range op.Cols {
				i := i
				if op.Cols[i].X != nil {
					out = append(out, Slot{Get: func() *E { return op.Cols[i].X }, Set: func(e *E) { op.Cols[i].X = e }, Path: path + ".col"})
				}
			}
			for i := range op.By {
				i := i
				out = append(out, Slot{Get: func() *E { return op.By[i].X }, Set: func(e *E) { op.By[i].X = e }, Path: path + ".by"})
			}
			for i := range op.Conds {
				i := i
				out = append(out, Slot{Get: func() *E { return op.Conds[i] }, Set: func(e *E) { op.Conds[i] = e }, Path: path + ".on", InJoinCond: true})
			}
			for i := range op.Props {
				i := i
				out = append(out, Slot{Get: func() *E { return op.Props[i].Val }, Set: func(e *E) { op.Props[i].Val = e }, Path: path + ".prop", Inert: true})
			}
			if op.Right != nil {
				pipe(op.Right, path+".right/")
			}
		}
	}
	seenQuery := false
	for _, s := range p.Stmts {
		s := s
		if s.LetX != nil {
			out = append(out, Slot{Get: func() *E { return s.LetX }, Set: func(e *E) { s.LetX = e }, Path: "let", InLet: true, Inert: seenQuery})
		}
		if s.Pipe != nil {
			pipe(s.Pipe, "")
			seenQuery = true
		}
	}
	return out
}

// CloneProgram deep-copies a program via its expression trees.
func CloneProgram(p *Program) *Program {
	var pipe func(t *Pipe) *Pipe
	pipe = func(t *Pipe) *Pipe {
		if t == nil {
			return nil
		}
		n := &Pipe{Table: t.Table}
		for _, op := range t.Ops {
			o := *op
			o.X = Clone(op.X)
			o.Terms = nil
			for _, tm := range op.Terms {
				o.Terms = append(o.Terms, SortTerm{X: Clone(tm.X), Dir: tm.Dir, Nulls: tm.Nulls})
			}
			cp := func(cs []Col) []Col {
				var out []Col
				for _, c := range cs {
					nc := Col{X: Clone(c.X)}
					if c.Name != nil {
						id := *c.Name
						nc.Name = &id
					}
					out = append(out, nc)
				}
				return out
			}
			o.Cols = cp(op.Cols)
			o.By = cp(op.By)
			o.Conds = nil
			for _, c := range op.Conds {
				o.Conds = append(o.Conds, Clone(c))
			}
			o.Props = nil
			for _, pr := range op.Props {
				o.Props = append(o.Props, Prop{Name: pr.Name, Val: Clone(pr.Val)})
			}
			o.Right = pipe(op.Right)
			n.Ops = append(n.Ops, &o)
		}
		return n
	}
	out := &Program{TrailSemi: p.TrailSemi, Empties: append([]int(nil), p.Empties...)}
	for _, s := range p.Stmts {
		ns := &Stmt{LetX: Clone(s.LetX), Pipe: pipe(s.Pipe)}
		if s.LetName != nil {
			id := *s.LetName
			ns.LetName = &id
		}
		out.Stmts = append(out.Stmts, ns)
	}
	return out
}
