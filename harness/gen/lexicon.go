package gen

// Lexicon is the lexeme list of the lexer workloads (tokens of every kind, well
// formed and not, white space, comments, unrecognisable pieces); other checks
// draw soups from it too.
var Lexicon = []string{"a", "b1", "_x", "$left", "and", "or", "in", "by", "let", "`q`", "`a``b`", "`", "'s'", "\"t\"", "'a\\'b'", "\"\\n\"", "'", "\"",
	"0", "007", "1.5", ".5", "5.", "1e3", "1E-2", "1e", "0x1F", "0x", "0xg", "0e0", "1.2.3", "..", ".", ",", "|", "(", ")", "[", "]", "+", "-", "*", "/", "%",
	"=", "==", "=~", "!=", "!~", "!", "<", "<=", ">", ">=", ";", "//c\n", "// c", "\n", " ", "\t", "\\", "é", "\xff", "\x00", "~", "#", "@", "{", "}", "^", "&", "\u00a0", "\u2028",
	"\r", "\r\n", "\ufeff", "\ufffd", "\u2020", "\u0420", "\u010d", "三", "😊", "\v", "\f", "\u0085",
	"0x000000000000000ff", "0x0ffffffffffffffff", "0x10000000000000000", "0x00000000000000000000000000000001", "0xffffffffffffffff", "00000000000000000000000000000000001", "1e00000000000000000001",
	"0E5", "00E1", "0E-3", "0.0E5", "0X1f", "000", "00.", ".00", "0e", "0E+",
	"'a\\\r", "\"b\\", "'c\\\n", "`d\r`", "'e\rf'",
	"\"x\\ty\nz\"", "'p\\tq\n", "r'", "000018446744073709551616", "00018446744073709551615", "0000000000000000000000000000000000000000.50", "`a``b`", "`a```", "`c````d`",
	// hexadecimal literals around and beyond 64 bits
	"0x8000000000000000", "0x7fffffffffffffff", "0xFFFFFFFFFFFFFFFFF", "0x1FFFFFFFFFFFFFFFF", "0x18000000000000000", "0xFFFFFFFFFFFFFFFF0", "0xffffffffffffffffffffffffffffffff", "0x00c000000000000001", "0X8000000000000001",
	// comment spellings of neighbouring languages, typographic quotes inside and outside strings, raw-string spellings
	"/*/", "/**/", "/* x */", "*/", "/*", "#x\n", "\u2018", "\u2019", "\u201c", "\u201d", "'a\u2019b'", "\"a\u201db\"", "'\u2018'", "```", "```a```", "```a`", "@'a'", "@\"b", "@",
	// integers around 2^64 whose last digit matters
	"18446744073709551614", "18446744073709551617", "18446744073709551618", "18446744073709551619", "18446744073709551625", "184467440737095516150", "9223372036854775809",
	// words that are keywords after a pipe only, or might be keywords one day; escapes
	// that stop short; a digit followed by an underscore
	"project", "away", "keep", "where", "take", "datetime", "not", "set", "distinct", "case", "has", "contains", "between",
	"'\\u'", "'\\x'", "'\\u12'", "\"\\x4\"", "'\\u", "'\\x", "_", "1_", "1_000", "5m", "2024-01-15",
	// numbers that stop inside their exponent, signs glued together
	"1e+", "2.5E-", "--", "- -", "+-", "1--1", "a--b"}

// LowByteLookalikes are characters whose code point, cut down to one byte, is an
// ASCII character that matters to the lexer (a quote, a backslash, a semicolon,
// a bracket, an escape letter, white space): U+0100+b and U+4E00+b for each.
var LowByteLookalikes = func() []string {
	var out []string
	for _, b := range []byte("'\"`\\;()[]|,.=!<>+-*/% \t\n\rntxe0$_") {
		out = append(out, string(rune(0x100+int(b))), string(rune(0x4E00+int(b))), string(rune(0x1F300+int(b))))
	}
	return out
}()
