package gen

import (
	"math/rand"

	. "verif/harness/pqlref"
)

// SynProgram returns the i-th program of the standard syntactic stream: a
// rotation over deep single expressions, one operator of each kind, and full
// multi-statement programs.
func SynProgram(g *Syn, i int) *Program {
	rng := g.Rng
	// every seventh program draws all its names from a pool of two
	g.Few = i%7 == 3
	defer func() { g.Few = false }()
	switch i % 4 {
	case 0:
		return Query("T", &Op{K: "where", X: g.Surface(g.Expr(2+rng.Intn(5)), 5)})
	case 1:
		kinds := []string{"count", "where", "sort", "take", "top", "project", "extend", "summarize", "join", "as", "render"}
		return &Program{Stmts: []*Stmt{{Pipe: &Pipe{Table: Ident{Name: "T"}, Ops: []*Op{g.Op(kinds[(i/4)%len(kinds)], 2, 2)}}}}}
	default:
		return g.Program(3, 4, 1+rng.Intn(3))
	}
}

// LayoutFor returns a deterministic layout for (seed, mode).
func LayoutFor(seed int64, mode int) Layout {
	return Layout{Mode: mode, Rng: rand.New(rand.NewSource(seed + int64(mode)*7919))}
}
