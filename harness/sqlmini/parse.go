package sqlmini

import (
	"fmt"
	"strings"
)

// X is a SQL expression.
type X struct {
	K      string   // col num str kw param bin not neg pos isnull in case call idx star
	Op     string   // bin: operator; kw: word; call: function name
	Parts  []string // col: decoded name parts
	Text   string   // num: text; str: decoded value; param: text
	Kids   []*X
	Negate bool // isnull: IS NOT NULL
	Filter *X   // call: FILTER (WHERE …)
	// Distinct: call: agg(DISTINCT x) — duplicates of the argument's value count once
	Distinct bool
}

// Item is one element of a select list.
type Item struct {
	Star     bool
	X        *X
	Alias    string
	HasAlias bool
}

// OrderTerm is one ORDER BY term.
type OrderTerm struct {
	X          *X
	Desc       bool
	HasDir     bool
	NullsFirst bool
	HasNulls   bool
}

// Join is the join form the compiler emits.
type Join struct {
	Left         string
	LeftDistinct bool
	LeftAlias    string
	Kind         string // "JOIN" or "LEFT JOIN"
	Right        string
	RightAlias   string
	On           *X
}

// Source is what a FROM reads.
type Source struct {
	Table string
	Join  *Join
}

// Select is one SELECT.
type Select struct {
	Distinct bool
	Items    []Item
	From     Source
	Where    *X
	GroupBy  []*X
	OrderBy  []OrderTerm
	Limit    *X
}

// CTE is a named subquery.
type CTE struct {
	Name string
	Sel  *Select
}

// Stmt is `[WITH name AS (select), …] select ;`.
type Stmt struct {
	CTEs []CTE
	Body *Select
}

type parser struct {
	toks []Tok
	i    int
}

type parseErr struct{ msg string }

func (p *parser) fail(format string, args ...any) {
	at := "end of statement"
	if p.i < len(p.toks) {
		at = fmt.Sprintf("token %d %v", p.i, p.toks[p.i])
	}
	panic(parseErr{fmt.Sprintf(format, args...) + " at " + at})
}

func (p *parser) peek() *Tok {
	if p.i < len(p.toks) {
		return &p.toks[p.i]
	}
	return nil
}
func (p *parser) isKw(w string) bool {
	t := p.peek()
	return t != nil && t.Kind == TKw && t.Val == w
}
func (p *parser) isOp(o string) bool {
	t := p.peek()
	return t != nil && t.Kind == TOp && t.Text == o
}
func (p *parser) acceptKw(w string) bool {
	if p.isKw(w) {
		p.i++
		return true
	}
	return false
}
func (p *parser) acceptOp(o string) bool {
	if p.isOp(o) {
		p.i++
		return true
	}
	return false
}
func (p *parser) expectKw(w string) {
	if !p.acceptKw(w) {
		p.fail("expected %s", w)
	}
}
func (p *parser) expectOp(o string) {
	if !p.acceptOp(o) {
		p.fail("expected %q", o)
	}
}
func (p *parser) qident() string {
	t := p.peek()
	if t == nil || t.Kind != TQIdent {
		p.fail("expected a quoted identifier")
	}
	p.i++
	return t.Val
}

// Parse parses one statement (lexed in ClickHouse mode). The token list must
// contain no comment or error token.
func Parse(sql string) (st *Stmt, err error) {
	toks := Lex(sql, ClickHouse)
	for _, t := range toks {
		if t.Kind == TComment || t.Kind == TErr {
			return nil, fmt.Errorf("lexical problem: %v %s at byte %d", t.Kind, t.Val, t.Start)
		}
	}
	return ParseTokens(toks)
}

// ParseTokens parses a token list.
func ParseTokens(toks []Tok) (st *Stmt, err error) {
	defer func() {
		if r := recover(); r != nil {
			if pe, ok := r.(parseErr); ok {
				st, err = nil, fmt.Errorf("%s", pe.msg)
				return
			}
			panic(r)
		}
	}()
	p := &parser{toks: toks}
	st = &Stmt{}
	if p.acceptKw("WITH") {
		for {
			name := p.qident()
			p.expectKw("AS")
			p.expectOp("(")
			sel := p.sel()
			p.expectOp(")")
			st.CTEs = append(st.CTEs, CTE{Name: name, Sel: sel})
			if !p.acceptOp(",") {
				break
			}
		}
	}
	st.Body = p.sel()
	p.expectOp(";")
	if p.i != len(p.toks) {
		p.fail("text after the terminating semicolon")
	}
	return st, nil
}

func (p *parser) sel() *Select {
	p.expectKw("SELECT")
	s := &Select{}
	if p.acceptKw("DISTINCT") {
		s.Distinct = true
	}
	for {
		if p.acceptOp("*") {
			s.Items = append(s.Items, Item{Star: true})
		} else {
			it := Item{X: p.expr()}
			if p.acceptKw("AS") {
				it.Alias = p.qident()
				it.HasAlias = true
			}
			s.Items = append(s.Items, it)
		}
		if !p.acceptOp(",") {
			break
		}
	}
	p.expectKw("FROM")
	s.From = p.source()
	if p.acceptKw("WHERE") {
		s.Where = p.expr()
	}
	if p.acceptKw("GROUP") {
		p.expectKw("BY")
		for {
			s.GroupBy = append(s.GroupBy, p.expr())
			if !p.acceptOp(",") {
				break
			}
		}
	}
	if p.acceptKw("ORDER") {
		p.expectKw("BY")
		for {
			t := OrderTerm{X: p.expr()}
			if p.acceptKw("ASC") {
				t.HasDir = true
			} else if p.acceptKw("DESC") {
				t.HasDir, t.Desc = true, true
			}
			if p.acceptKw("NULLS") {
				t.HasNulls = true
				if p.acceptKw("FIRST") {
					t.NullsFirst = true
				} else {
					p.expectKw("LAST")
				}
			}
			s.OrderBy = append(s.OrderBy, t)
			if !p.acceptOp(",") {
				break
			}
		}
	}
	if p.acceptKw("LIMIT") {
		s.Limit = p.expr()
	}
	return s
}

func (p *parser) source() Source {
	src := Source{}
	left := ""
	distinct := false
	if p.acceptOp("(") {
		p.expectKw("SELECT")
		p.expectKw("DISTINCT")
		p.expectOp("*")
		p.expectKw("FROM")
		left = p.qident()
		p.expectOp(")")
		distinct = true
	} else {
		left = p.qident()
	}
	if !p.isKw("AS") {
		if distinct {
			p.fail("a parenthesised source must be the left side of a join")
		}
		src.Table = left
		return src
	}
	p.expectKw("AS")
	j := &Join{Left: left, LeftDistinct: distinct}
	j.LeftAlias = p.qident()
	if p.acceptKw("LEFT") {
		p.expectKw("JOIN")
		j.Kind = "LEFT JOIN"
	} else {
		p.acceptKw("INNER")
		p.expectKw("JOIN")
		j.Kind = "JOIN"
	}
	j.Right = p.qident()
	p.expectKw("AS")
	j.RightAlias = p.qident()
	p.expectKw("ON")
	j.On = p.expr()
	src.Join = j
	return src
}

// ParseExpr parses a single expression from SQL text (for tests and for
// evaluating parameter snippets).
func ParseExpr(sql string) (x *X, err error) {
	toks := Lex(sql, ClickHouse)
	for _, t := range toks {
		if t.Kind == TComment || t.Kind == TErr {
			return nil, fmt.Errorf("lexical problem: %v at byte %d", t.Kind, t.Start)
		}
	}
	defer func() {
		if r := recover(); r != nil {
			if pe, ok := r.(parseErr); ok {
				x, err = nil, fmt.Errorf("%s", pe.msg)
				return
			}
			panic(r)
		}
	}()
	p := &parser{toks: toks}
	x = p.expr()
	if p.i != len(p.toks) {
		p.fail("trailing text")
	}
	return x, nil
}

// Operator precedence of the target dialect (ClickHouse; PostgreSQL agrees on
// everything the compiler emits), loosest first:
//
//	OR < AND < NOT < IS [NOT] NULL < = <> < <= > >= IN < || < + - < * / % < unary - + < [ ] .
//
// Binary operators are left-associative.
func (p *parser) expr() *X { return p.or() }

func (p *parser) or() *X {
	x := p.and()
	for p.acceptKw("OR") {
		x = &X{K: "bin", Op: "OR", Kids: []*X{x, p.and()}}
	}
	return x
}

func (p *parser) and() *X {
	x := p.not()
	for p.acceptKw("AND") {
		x = &X{K: "bin", Op: "AND", Kids: []*X{x, p.not()}}
	}
	return x
}

func (p *parser) not() *X {
	if p.acceptKw("NOT") {
		return &X{K: "not", Kids: []*X{p.not()}}
	}
	return p.is()
}

func (p *parser) is() *X {
	x := p.cmp()
	for p.acceptKw("IS") {
		neg := p.acceptKw("NOT")
		p.expectKw("NULL")
		x = &X{K: "isnull", Negate: neg, Kids: []*X{x}}
	}
	return x
}

func (p *parser) cmp() *X {
	x := p.concat()
	for {
		t := p.peek()
		if t == nil {
			return x
		}
		if t.Kind == TOp {
			switch t.Text {
			case "=", "==", "<>", "!=", "<", "<=", ">", ">=":
				p.i++
				op := t.Text
				if op == "==" {
					op = "="
				}
				if op == "!=" {
					op = "<>"
				}
				x = &X{K: "bin", Op: op, Kids: []*X{x, p.concat()}}
				continue
			}
		}
		if t.Kind == TKw && t.Val == "IN" {
			p.i++
			p.expectOp("(")
			in := &X{K: "in", Kids: []*X{x}}
			for {
				in.Kids = append(in.Kids, p.expr())
				if !p.acceptOp(",") {
					break
				}
			}
			p.expectOp(")")
			x = in
			continue
		}
		return x
	}
}

func (p *parser) concat() *X {
	x := p.add()
	for p.acceptOp("||") {
		x = &X{K: "bin", Op: "||", Kids: []*X{x, p.add()}}
	}
	return x
}

func (p *parser) add() *X {
	x := p.mul()
	for p.isOp("+") || p.isOp("-") {
		op := p.peek().Text
		p.i++
		x = &X{K: "bin", Op: op, Kids: []*X{x, p.mul()}}
	}
	return x
}

func (p *parser) mul() *X {
	x := p.unary()
	for p.isOp("*") || p.isOp("/") || p.isOp("%") {
		op := p.peek().Text
		p.i++
		x = &X{K: "bin", Op: op, Kids: []*X{x, p.unary()}}
	}
	return x
}

func (p *parser) unary() *X {
	if p.acceptOp("-") {
		return &X{K: "neg", Kids: []*X{p.unary()}}
	}
	if p.acceptOp("+") {
		return &X{K: "pos", Kids: []*X{p.unary()}}
	}
	return p.postfix()
}

func (p *parser) postfix() *X {
	x := p.primary()
	for p.acceptOp("[") {
		i := p.expr()
		p.expectOp("]")
		x = &X{K: "idx", Kids: []*X{x, i}}
	}
	return x
}

func (p *parser) primary() *X {
	t := p.peek()
	if t == nil {
		p.fail("expected an expression")
	}
	switch t.Kind {
	case TNum:
		p.i++
		return &X{K: "num", Text: t.Text}
	case TStr:
		p.i++
		return &X{K: "str", Text: t.Val}
	case TParam:
		p.i++
		return &X{K: "param", Text: t.Text}
	case TQIdent:
		p.i++
		x := &X{K: "col", Parts: []string{t.Val}}
		for p.isOp(".") {
			p.i++
			x.Parts = append(x.Parts, p.qident())
		}
		return x
	case TKw:
		switch t.Val {
		case "TRUE", "FALSE", "NULL", "CURRENT_TIMESTAMP":
			p.i++
			return &X{K: "kw", Op: t.Val}
		case "CASE":
			p.i++
			p.expectKw("WHEN")
			c := p.expr()
			p.expectKw("THEN")
			a := p.expr()
			p.expectKw("ELSE")
			b := p.expr()
			p.expectKw("END")
			return &X{K: "case", Kids: []*X{c, a, b}}
		}
	case TIdent:
		p.i++
		p.expectOp("(")
		call := &X{K: "call", Op: t.Text}
		if !p.isOp(")") {
			if p.acceptKw("DISTINCT") {
				call.Distinct = true
			}
			for {
				if p.acceptOp("*") {
					call.Kids = append(call.Kids, &X{K: "star"})
				} else {
					call.Kids = append(call.Kids, p.expr())
				}
				if !p.acceptOp(",") {
					break
				}
			}
		}
		p.expectOp(")")
		if p.acceptKw("FILTER") {
			p.expectOp("(")
			p.expectKw("WHERE")
			call.Filter = p.expr()
			p.expectOp(")")
		}
		return call
	case TOp:
		if t.Text == "(" {
			p.i++
			x := p.expr()
			p.expectOp(")")
			return x
		}
	}
	p.fail("unexpected token in expression")
	return nil
}

// String renders an expression as an s-expression.
func (x *X) String() string {
	if x == nil {
		return "nil"
	}
	switch x.K {
	case "col":
		return `"` + strings.Join(x.Parts, `"."`) + `"`
	case "num":
		return x.Text
	case "str":
		return fmt.Sprintf("%q", x.Text)
	case "kw":
		return x.Op
	case "param":
		return x.Text
	case "star":
		return "*"
	}
	var sb strings.Builder
	sb.WriteString("(" + x.K)
	if x.Op != "" {
		sb.WriteString(" " + x.Op)
	}
	if x.Negate {
		sb.WriteString(" not")
	}
	for _, k := range x.Kids {
		sb.WriteString(" " + k.String())
	}
	if x.Filter != nil {
		sb.WriteString(" filter:" + x.Filter.String())
	}
	sb.WriteString(")")
	return sb.String()
}
