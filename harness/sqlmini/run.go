package sqlmini

import (
	"fmt"
	"sort"
	"strings"

	"verif/harness/val"
)

// Table is a named-column table.
type Table struct {
	Cols []string
	Rows [][]val.V
}

// DB maps table names to tables.
type DB map[string]*Table

// QueryError is the outcome "the query fails" (a type error, an unknown or
// ambiguous column, an unknown table).
type QueryError struct {
	Msg string
	// Structural: the failure is an unknown table, an unknown or ambiguous
	// column, or a malformed query shape — not a value-level type error.
	Structural bool
}

func (e *QueryError) Error() string { return e.Msg }

func qerr(format string, args ...any) *QueryError {
	return &QueryError{Msg: fmt.Sprintf(format, args...)}
}

// Run executes a statement on a database with sequential semantics: CTEs in
// order, scan order = stored order, stable ORDER BY, LIMIT = first N, GROUP BY
// in first-appearance order, DISTINCT keeps first appearances, nested-loop
// joins left-major.
func Run(st *Stmt, db DB, params map[string]val.V) (t *Table, err error) {
	Missing = nil
	defer func() {
		if qe, ok := err.(*QueryError); ok && len(Missing) > 0 {
			qe.Structural = true
			qe.Msg += " (" + Missing[0] + ")"
		}
	}()
	ctes := map[string]*Table{}
	for _, c := range st.CTEs {
		t, err := runSelect(c.Sel, db, ctes, params)
		if err != nil {
			return nil, err
		}
		ctes[c.Name] = t
	}
	return runSelect(st.Body, db, ctes, params)
}

func lookupTable(name string, db DB, ctes map[string]*Table) (*Table, error) {
	if t, ok := ctes[name]; ok {
		return t, nil
	}
	if t, ok := db[name]; ok {
		return t, nil
	}
	return nil, &QueryError{Msg: fmt.Sprintf("unknown table %q", name), Structural: true}
}

type srcRow struct {
	vals []val.V
	env  *Env
}

func runSelect(s *Select, db DB, ctes map[string]*Table, params map[string]val.V) (*Table, error) {
	var srcCols []string
	var rows []srcRow
	if j := s.From.Join; j != nil {
		lt, err := lookupTable(j.Left, db, ctes)
		if err != nil {
			return nil, err
		}
		rt, err := lookupTable(j.Right, db, ctes)
		if err != nil {
			return nil, err
		}
		lrows := lt.Rows
		if j.LeftDistinct {
			seen := map[string]bool{}
			lrows = nil
			for _, r := range lt.Rows {
				k := val.RowString(r)
				if !seen[k] {
					seen[k] = true
					lrows = append(lrows, r)
				}
			}
		}
		srcCols = append(append([]string{}, lt.Cols...), rt.Cols...)
		mk := func(l, r []val.V) srcRow {
			env := NewEnv()
			for i, c := range lt.Cols {
				env.Override(l[i], j.LeftAlias, c)
				env.Set(l[i], c)
			}
			for i, c := range rt.Cols {
				env.Override(r[i], j.RightAlias, c)
				env.Set(r[i], c)
			}
			return srcRow{vals: append(append([]val.V{}, l...), r...), env: env}
		}
		nulls := make([]val.V, len(rt.Cols))
		for _, l := range lrows {
			matched := false
			for _, r := range rt.Rows {
				sr := mk(l, r)
				v := Eval(j.On, &Ctx{Row: sr.env, Params: params})
				if v.K == val.Err || (v.K != val.Bool && v.K != val.Null) {
					return nil, qerr("join condition fails or is not boolean")
				}
				if v.K == val.Bool && v.B {
					matched = true
					rows = append(rows, sr)
				}
			}
			if !matched && j.Kind == "LEFT JOIN" {
				rows = append(rows, mk(l, nulls))
			}
		}
	} else {
		t, err := lookupTable(s.From.Table, db, ctes)
		if err != nil {
			return nil, err
		}
		srcCols = t.Cols
		for _, r := range t.Rows {
			env := NewEnv()
			for i, c := range t.Cols {
				env.Set(r[i], c)
			}
			rows = append(rows, srcRow{vals: r, env: env})
		}
	}
	if s.Where != nil {
		var kept []srcRow
		for _, r := range rows {
			v := Eval(s.Where, &Ctx{Row: r.env, Params: params})
			if v.K == val.Err || (v.K != val.Bool && v.K != val.Null) {
				return nil, qerr("WHERE fails or is not boolean: %v", v)
			}
			if v.K == val.Bool && v.B {
				kept = append(kept, r)
			}
		}
		rows = kept
	}
	grouped := len(s.GroupBy) > 0
	for _, it := range s.Items {
		if !it.Star && HasAggregate(it.X) {
			grouped = true
		}
	}
	out := &Table{}
	for i, it := range s.Items {
		switch {
		case it.Star:
			if grouped {
				return nil, &QueryError{Msg: "SELECT * in an aggregating query", Structural: true}
			}
			out.Cols = append(out.Cols, srcCols...)
		case it.HasAlias:
			out.Cols = append(out.Cols, it.Alias)
		default:
			out.Cols = append(out.Cols, fmt.Sprintf("_col%d", i))
		}
	}
	type outRow struct {
		vals []val.V
		env  *Env // for ORDER BY: source columns overridden by output aliases
	}
	var outs []outRow
	emit := func(first *Env, group []*Env, src []val.V) error {
		var vals []val.V
		env := NewEnv()
		if first != nil {
			for k, v := range first.Vals {
				env.Vals[k] = v
			}
			for k := range first.Ambig {
				env.Ambig[k] = true
			}
		}
		rowEnv := first
		if rowEnv == nil {
			rowEnv = NewEnv()
		}
		for _, it := range s.Items {
			if it.Star {
				vals = append(vals, src...)
				continue
			}
			v := Eval(it.X, &Ctx{Row: rowEnv, Group: group, Params: params})
			if v.K == val.Err {
				return qerr("select item %s fails", it.X.String())
			}
			vals = append(vals, v)
			if it.HasAlias {
				env.Override(v, it.Alias)
			}
		}
		outs = append(outs, outRow{vals, env})
		return nil
	}
	if grouped {
		var order []string
		groups := map[string][]*Env{}
		if len(s.GroupBy) == 0 {
			order = []string{""}
			groups[""] = []*Env{}
			for _, r := range rows {
				groups[""] = append(groups[""], r.env)
			}
		} else {
			for _, r := range rows {
				var kv []val.V
				for _, g := range s.GroupBy {
					v := Eval(g, &Ctx{Row: r.env, Params: params})
					if v.K == val.Err {
						return nil, qerr("GROUP BY key fails")
					}
					kv = append(kv, v)
				}
				k := val.RowString(kv)
				if _, ok := groups[k]; !ok {
					order = append(order, k)
				}
				groups[k] = append(groups[k], r.env)
			}
		}
		for _, k := range order {
			g := groups[k]
			var first *Env
			if len(g) > 0 {
				first = g[0]
			}
			grp := g
			if grp == nil {
				grp = []*Env{}
			}
			if err := emit(first, grp, nil); err != nil {
				return nil, err
			}
		}
	} else {
		for _, r := range rows {
			if err := emit(r.env, nil, r.vals); err != nil {
				return nil, err
			}
		}
	}
	if len(s.OrderBy) > 0 {
		keys := make([][]val.V, len(outs))
		for i, o := range outs {
			for _, t := range s.OrderBy {
				v := Eval(t.X, &Ctx{Row: o.env, Params: params})
				if v.K == val.Err {
					return nil, qerr("ORDER BY key %s fails", t.X.String())
				}
				keys[i] = append(keys[i], v)
			}
		}
		for ti := range s.OrderBy {
			var ref *val.V
			for i := range keys {
				v := keys[i][ti]
				if v.K == val.Null {
					continue
				}
				if ref == nil {
					ref = &keys[i][ti]
				} else if !val.Comparable(*ref, v) {
					return nil, qerr("ORDER BY key has values of incomparable types")
				}
			}
		}
		idx := make([]int, len(outs))
		for i := range idx {
			idx[i] = i
		}
		sort.SliceStable(idx, func(a, b int) bool {
			ka, kb := keys[idx[a]], keys[idx[b]]
			for ti, t := range s.OrderBy {
				c := cmpKey(ka[ti], kb[ti], t.Desc, nullsFirst(t))
				if c != 0 {
					return c < 0
				}
			}
			return false
		})
		sorted := make([]outRow, len(outs))
		for i, j := range idx {
			sorted[i] = outs[j]
		}
		outs = sorted
	}
	if s.Limit != nil {
		v := Eval(s.Limit, &Ctx{Row: NewEnv(), Params: params})
		if v.K == val.Float && v.F >= 9.2e18 && s.Limit.K == "num" && !strings.ContainsAny(s.Limit.Text, ".eE") {
			v = val.I(int64(^uint64(0) >> 1)) // an integer literal beyond int64 limits nothing
		}
		if v.K != val.Int || v.I < 0 {
			return nil, qerr("LIMIT is not a non-negative integer: %v", v)
		}
		if int(v.I) < len(outs) {
			outs = outs[:v.I]
		}
	}
	for _, o := range outs {
		out.Rows = append(out.Rows, o.vals)
	}
	return out, nil
}

func nullsFirst(t OrderTerm) bool {
	if t.HasNulls {
		return t.NullsFirst
	}
	return false // ClickHouse default: NULLS LAST in either direction
}

// cmpKey orders two sort keys: NULL placement is absolute, direction applies
// to non-NULL values.
func cmpKey(a, b val.V, desc, nullsFirst bool) int {
	an, bn := a.K == val.Null, b.K == val.Null
	switch {
	case an && bn:
		return 0
	case an:
		if nullsFirst {
			return -1
		}
		return 1
	case bn:
		if nullsFirst {
			return 1
		}
		return -1
	}
	c := 0
	if val.Less(a, b) {
		c = -1
	} else if val.Less(b, a) {
		c = 1
	}
	if desc {
		c = -c
	}
	return c
}

// String renders a table.
func (t *Table) String() string {
	var sb strings.Builder
	sb.WriteString("[" + strings.Join(t.Cols, ", ") + "]")
	for _, r := range t.Rows {
		sb.WriteString("\n    " + val.RowString(r))
	}
	return sb.String()
}
