package sqlmini

import (
	"strings"

	"verif/harness/val"
)

const sep = "\x1f"

// Env is the set of column values visible to an expression.
type Env struct {
	Vals  map[string]val.V
	Ambig map[string]bool
}

// NewEnv makes an empty environment.
func NewEnv() *Env { return &Env{Vals: map[string]val.V{}, Ambig: map[string]bool{}} }

// Set binds a (possibly qualified) name. Binding an unqualified name twice
// makes it ambiguous.
func (e *Env) Set(v val.V, parts ...string) {
	k := strings.Join(parts, sep)
	if _, dup := e.Vals[k]; dup {
		e.Ambig[k] = true
	}
	e.Vals[k] = v
}

// Override binds a name, replacing any previous binding.
func (e *Env) Override(v val.V, parts ...string) {
	k := strings.Join(parts, sep)
	delete(e.Ambig, k)
	e.Vals[k] = v
}

// Missing collects references to unknown or ambiguous columns made by Eval
// since it was last reset (workers are single-threaded).
var Missing []string

func (e *Env) lookup(parts []string) val.V {
	k := strings.Join(parts, sep)
	if e.Ambig[k] {
		Missing = append(Missing, "ambiguous column "+strings.Join(parts, "."))
		return val.ERR
	}
	if v, ok := e.Vals[k]; ok {
		return v
	}
	Missing = append(Missing, "unknown column "+strings.Join(parts, "."))
	return val.ERR
}

// Ctx is an evaluation context: the current row, the rows of the current
// group (nil: the current row alone), and placeholder bindings.
type Ctx struct {
	Row    *Env
	Group  []*Env
	Params map[string]val.V
}

func (c *Ctx) group() []*Env {
	if c.Group != nil {
		return c.Group
	}
	return []*Env{c.Row}
}

// HasAggregate reports whether x contains an aggregate call.
func HasAggregate(x *X) bool {
	if x == nil {
		return false
	}
	if x.K == "call" && (val.IsAggregate(x.Op) || x.Filter != nil) {
		return true
	}
	for _, k := range x.Kids {
		if HasAggregate(k) {
			return true
		}
	}
	return false
}

// Eval evaluates a SQL expression.
func Eval(x *X, c *Ctx) val.V {
	switch x.K {
	case "col":
		return c.Row.lookup(x.Parts)
	case "num":
		v, ok := val.ParseNumber(x.Text)
		if !ok {
			return val.ERR
		}
		return v
	case "str":
		return val.S(x.Text)
	case "kw":
		switch x.Op {
		case "TRUE":
			return val.TRUE
		case "FALSE":
			return val.FALSE
		case "NULL":
			return val.NULL
		case "CURRENT_TIMESTAMP":
			return val.NOW
		}
		return val.ERR
	case "param":
		if v, ok := c.Params[x.Text]; ok {
			return v
		}
		return val.ERR
	case "bin":
		a, b := Eval(x.Kids[0], c), Eval(x.Kids[1], c)
		switch x.Op {
		case "AND":
			return val.And(a, b)
		case "OR":
			return val.Or(a, b)
		case "=", "<>", "<", "<=", ">", ">=":
			return val.Cmp(x.Op, a, b)
		case "||":
			return val.Concat(a, b)
		case "+", "-", "*", "/", "%":
			return val.Arith(x.Op, a, b)
		}
		return val.ERR
	case "not":
		return val.Not(Eval(x.Kids[0], c))
	case "neg":
		return val.Neg(Eval(x.Kids[0], c))
	case "pos":
		return val.Pos(Eval(x.Kids[0], c))
	case "isnull":
		if x.Negate {
			return val.IsNotNull(Eval(x.Kids[0], c))
		}
		return val.IsNull(Eval(x.Kids[0], c))
	case "in":
		v := Eval(x.Kids[0], c)
		var list []val.V
		for _, k := range x.Kids[1:] {
			list = append(list, Eval(k, c))
		}
		return val.In(v, list)
	case "case":
		return val.Case(Eval(x.Kids[0], c), Eval(x.Kids[1], c), Eval(x.Kids[2], c))
	case "idx":
		return val.Index(Eval(x.Kids[0], c), Eval(x.Kids[1], c))
	case "call":
		name := strings.ToLower(x.Op)
		if val.IsAggregate(name) || x.Filter != nil {
			return evalAggregate(x, name, c)
		}
		var args []val.V
		for _, k := range x.Kids {
			if k.K == "star" {
				return val.ERR
			}
			args = append(args, Eval(k, c))
		}
		return val.Call(x.Op, args)
	}
	return val.ERR
}

func evalAggregate(x *X, name string, c *Ctx) val.V {
	rows := c.group()
	var kept []*Env
	for _, r := range rows {
		if x.Filter != nil {
			f := Eval(x.Filter, &Ctx{Row: r, Params: c.Params})
			if f.K == val.Err || (f.K != val.Bool && f.K != val.Null) {
				return val.ERR
			}
			if !(f.K == val.Bool && f.B) {
				continue
			}
		}
		kept = append(kept, r)
	}
	if x.Distinct {
		// one argument; rows whose argument repeats an earlier value are left out
		// (NULLs are ignored by the aggregate anyway)
		if len(x.Kids) != 1 || x.Kids[0].K == "star" {
			return val.ERR
		}
		seen := map[string]bool{}
		var uniq []*Env
		for _, r := range kept {
			v := Eval(x.Kids[0], &Ctx{Row: r, Params: c.Params})
			if v.K == val.Err {
				return val.ERR
			}
			k := v.String()
			if v.K != val.Null && seen[k] {
				continue
			}
			seen[k] = true
			uniq = append(uniq, r)
		}
		kept = uniq
	}
	switch name {
	case "count":
		if len(x.Kids) == 0 || (len(x.Kids) == 1 && x.Kids[0].K == "star") {
			return val.I(int64(len(kept)))
		}
		if len(x.Kids) == 1 {
			n := int64(0)
			for _, r := range kept {
				v := Eval(x.Kids[0], &Ctx{Row: r, Params: c.Params})
				if v.K == val.Err {
					return val.ERR
				}
				if v.K != val.Null {
					n++
				}
			}
			return val.I(n)
		}
		return val.ERR
	case "countif":
		if len(x.Kids) != 1 {
			return val.ERR
		}
		n := int64(0)
		for _, r := range kept {
			v := Eval(x.Kids[0], &Ctx{Row: r, Params: c.Params})
			if v.K == val.Err || (v.K != val.Bool && v.K != val.Null) {
				return val.ERR
			}
			if v.K == val.Bool && v.B {
				n++
			}
		}
		return val.I(n)
	case "sum", "min", "max", "avg":
		if len(x.Kids) != 1 || x.Kids[0].K == "star" {
			return val.ERR
		}
		var vals []val.V
		for _, r := range kept {
			vals = append(vals, Eval(x.Kids[0], &Ctx{Row: r, Params: c.Params}))
		}
		return val.Aggregate(name, vals)
	}
	return val.ERR
}
