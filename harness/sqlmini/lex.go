// Package sqlmini is an independent reader of the SQL the compiler emits: a
// lexer with two quoting modes, a statement parser with the operator
// precedence of the target dialect, a scalar evaluator and a small
// sequential table engine. It shares nothing with github.com/runreveal/pql.
package sqlmini

import (
	"fmt"
	"strings"
)

type TokKind int

const (
	TKw      TokKind = iota // reserved word (upper-cased in Text)
	TIdent                  // bare identifier (function names)
	TQIdent                 // "quoted" or `quoted` identifier (decoded in Val)
	TStr                    // 'string' (decoded in Val)
	TNum                    // numeric literal
	TOp                     // operator or punctuation
	TParam                  // placeholder: $1  ?  {name:Type}  :name  @name
	TComment                // -- …, /* … */, # … (ClickHouse mode)
	TErr                    // unterminated quote/comment or stray byte
)

func (k TokKind) String() string {
	return [...]string{"KW", "IDENT", "QIDENT", "STR", "NUM", "OP", "PARAM", "COMMENT", "ERR"}[k]
}

// Tok is a SQL token.
type Tok struct {
	Kind       TokKind
	Text       string // source text
	Val        string // decoded content for TQIdent/TStr; upper-cased word for TKw
	Start, End int
}

func (t Tok) String() string { return fmt.Sprintf("%v(%s)", t.Kind, t.Text) }

// Mode selects the quoting rules.
type Mode int

const (
	// Standard: inside quotes only the doubled quote character is special.
	Standard Mode = iota
	// ClickHouse: additionally backslash escapes inside '…', "…" and `…`.
	ClickHouse
)

var reserved = map[string]bool{
	"SELECT": true, "DISTINCT": true, "FROM": true, "WHERE": true, "GROUP": true, "BY": true, "ORDER": true, "ASC": true, "DESC": true,
	"NULLS": true, "FIRST": true, "LAST": true, "LIMIT": true, "WITH": true, "AS": true, "JOIN": true, "LEFT": true, "ON": true,
	"AND": true, "OR": true, "NOT": true, "IN": true, "IS": true, "NULL": true, "TRUE": true, "FALSE": true, "CASE": true, "WHEN": true,
	"THEN": true, "ELSE": true, "END": true, "FILTER": true, "CURRENT_TIMESTAMP": true, "UNION": true, "INNER": true, "OUTER": true,
	"HAVING": true, "OFFSET": true, "ALL": true, "BETWEEN": true, "LIKE": true, "EXISTS": true,
}

// IsReserved reports whether a bare word is a reserved word of the mini-grammar.
func IsReserved(w string) bool { return reserved[strings.ToUpper(w)] }

func isWordStart(c byte) bool {
	return c >= 'a' && c <= 'z' || c >= 'A' && c <= 'Z' || c == '_'
}
func isDigit(c byte) bool { return c >= '0' && c <= '9' }
func isWord(c byte) bool  { return isWordStart(c) || isDigit(c) }

// chEscape decodes the character after a backslash by ClickHouse's rules.
func chEscape(s string, i int) (string, int) {
	c := s[i]
	switch c {
	case 'b':
		return "\b", 1
	case 'f':
		return "\f", 1
	case 'r':
		return "\r", 1
	case 'n':
		return "\n", 1
	case 't':
		return "\t", 1
	case '0':
		return "\x00", 1
	case 'a':
		return "\a", 1
	case 'v':
		return "\v", 1
	case 'e':
		return "\x1b", 1
	case 'x':
		if i+2 < len(s) && isHexDigit(s[i+1]) && isHexDigit(s[i+2]) {
			return string([]byte{hexVal(s[i+1])<<4 | hexVal(s[i+2])}), 3
		}
		return "x", 1
	}
	return string([]byte{c}), 1
}

func isHexDigit(c byte) bool { return isDigit(c) || c >= 'a' && c <= 'f' || c >= 'A' && c <= 'F' }
func hexVal(c byte) byte {
	switch {
	case isDigit(c):
		return c - '0'
	case c >= 'a':
		return c - 'a' + 10
	}
	return c - 'A' + 10
}

// Lex tokenises SQL text. It never fails: problems become TErr tokens, and
// comments are reported as tokens so that "content opened a comment" is
// visible to the caller.
func Lex(s string, mode Mode) []Tok {
	var out []Tok
	i := 0
	n := len(s)
	emit := func(k TokKind, start, end int, val string) {
		out = append(out, Tok{Kind: k, Text: s[start:end], Val: val, Start: start, End: end})
	}
	for i < n {
		c := s[i]
		switch {
		case c == ' ' || c == '\t' || c == '\n' || c == '\r' || c == '\f' || c == '\v':
			i++
		case c == '-' && i+1 < n && s[i+1] == '-':
			j := i
			for j < n && s[j] != '\n' {
				j++
			}
			emit(TComment, i, j, "")
			i = j
		case c == '#' && mode == ClickHouse:
			j := i
			for j < n && s[j] != '\n' {
				j++
			}
			emit(TComment, i, j, "")
			i = j
		case c == '/' && i+1 < n && s[i+1] == '*':
			j := strings.Index(s[i+2:], "*/")
			if j < 0 {
				emit(TErr, i, n, "unterminated comment")
				i = n
			} else {
				emit(TComment, i, i+2+j+2, "")
				i = i + 2 + j + 2
			}
		case c == '\'' || c == '"' || c == '`':
			j := i + 1
			var sb strings.Builder
			closed := false
			for j < n {
				d := s[j]
				if d == '\\' && mode == ClickHouse {
					if j+1 >= n {
						j = n
						break
					}
					dec, w := chEscape(s, j+1)
					sb.WriteString(dec)
					j += 1 + w
					continue
				}
				if d == c {
					if j+1 < n && s[j+1] == c {
						sb.WriteByte(c)
						j += 2
						continue
					}
					closed = true
					j++
					break
				}
				sb.WriteByte(d)
				j++
			}
			if !closed {
				emit(TErr, i, n, "unterminated quote")
				i = n
				break
			}
			if c == '\'' {
				emit(TStr, i, j, sb.String())
			} else {
				emit(TQIdent, i, j, sb.String())
			}
			i = j
		case isDigit(c) || c == '.' && i+1 < n && isDigit(s[i+1]):
			j := i
			if c == '0' && j+1 < n && (s[j+1] == 'x' || s[j+1] == 'X') {
				j += 2
				for j < n && isHexDigit(s[j]) {
					j++
				}
			} else {
				for j < n && isDigit(s[j]) {
					j++
				}
				if j < n && s[j] == '.' {
					j++
					for j < n && isDigit(s[j]) {
						j++
					}
				}
				if j < n && (s[j] == 'e' || s[j] == 'E') {
					k := j + 1
					if k < n && (s[k] == '+' || s[k] == '-') {
						k++
					}
					if k < n && isDigit(s[k]) {
						for k < n && isDigit(s[k]) {
							k++
						}
						j = k
					}
				}
			}
			// a number directly followed by a word character is one broken token
			if j < n && isWord(s[j]) {
				k := j
				for k < n && isWord(s[k]) {
					k++
				}
				emit(TErr, i, k, "malformed number")
				i = k
				break
			}
			emit(TNum, i, j, "")
			i = j
		case isWordStart(c):
			j := i
			for j < n && isWord(s[j]) {
				j++
			}
			w := s[i:j]
			if reserved[strings.ToUpper(w)] {
				emit(TKw, i, j, strings.ToUpper(w))
			} else {
				emit(TIdent, i, j, w)
			}
			i = j
		case c == '$' || c == ':' || c == '@':
			j := i + 1
			for j < n && isWord(s[j]) {
				j++
			}
			if j == i+1 {
				emit(TErr, i, j, "stray character")
			} else {
				emit(TParam, i, j, "")
			}
			i = j
		case c == '?':
			emit(TParam, i, i+1, "")
			i++
		case c == '{':
			j := strings.IndexByte(s[i:], '}')
			if j < 0 {
				emit(TErr, i, n, "unterminated placeholder")
				i = n
			} else {
				emit(TParam, i, i+j+1, "")
				i += j + 1
			}
		default:
			two := ""
			if i+1 < n {
				two = s[i : i+2]
			}
			switch two {
			case "<>", "!=", "<=", ">=", "||", "==":
				emit(TOp, i, i+2, "")
				i += 2
				continue
			}
			if strings.IndexByte("=<>+-*/%()[],.;", c) >= 0 {
				emit(TOp, i, i+1, "")
				i++
				continue
			}
			emit(TErr, i, i+1, "stray character")
			i++
		}
	}
	return out
}

// KindSeq renders the kind sequence of a token list with the text of
// keywords, operators and bare identifiers kept and the content of
// literals, quoted identifiers and numbers abstracted away.
func KindSeq(toks []Tok) string {
	var sb strings.Builder
	for i, t := range toks {
		if i > 0 {
			sb.WriteByte(' ')
		}
		switch t.Kind {
		case TKw:
			sb.WriteString(t.Val)
		case TOp:
			sb.WriteString(t.Text)
		case TIdent:
			sb.WriteString("id:" + t.Text)
		default:
			sb.WriteString(t.Kind.String())
		}
	}
	return sb.String()
}
