#!/bin/bash
# Run once after a fresh restore, offline: builds the harness against /repo's
# current tree (this only warms the Go build cache; every ./check rebuilds).
set -e
export GOFLAGS=-mod=mod GOPROXY=off GOSUMDB=off GOTOOLCHAIN=local
cd "$(dirname "$0")"
mkdir -p .bin evidence
cp /repo/go.sum harness/go.sum
(cd harness && go build -tags verif -o ../.bin/vmon ./cmd/vmon)
(cd harness && go build -tags verif -race -o ../.bin/vmon-race ./cmd/vmon)
(cd /repo && go build -o /verif/.bin/pqlcli ./cmd/pql)
echo "setup ok"
